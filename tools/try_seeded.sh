#!/bin/bash
# usage: try_seeded.sh <seeded-id> <prop> [<prop>...]   (env TIER=quick|thorough, RUNS=n)
# Applies /verif/seeded/<id>/patch.diff to /repo, runs the given checks, reverts /repo. Never commits.
set -u
id=$1; shift
cd /repo || exit 2
if ! git diff --quiet; then echo "/repo has uncommitted changes"; exit 2; fi
git apply /verif/seeded/$id/patch.diff || { echo "patch does not apply"; exit 2; }
trap 'git -C /repo checkout -- . ' EXIT
cd /verif
for p in "$@"; do
  out=$(./check $p --tier ${TIER:-quick} ${RUNS:+--runs $RUNS} --nodeterminism 2>&1)
  code=$?
  echo "== $id / $p: exit $code"
  echo "$out" | grep -E "^(VIOLATION|violation|INFRA|runs=)" | head -6
done
