#!/bin/bash
# usage: try_seeded.sh <seeded-id> <prop> [<prop>...]   (env TIER=quick|thorough, RUNS=n)
# Runs the given checks against a scratch worktree of /repo with /verif/seeded/<id>/patch.diff applied
# (VERIF_ALT_REPO, see /verif/check): /repo itself is not touched, outputs go to /verif/.cache/alt.
set -u
id=$1; shift
wt=/tmp/try_$id
git -C /repo worktree remove --force $wt >/dev/null 2>&1
git -C /repo worktree add -q $wt HEAD || exit 2
trap 'git -C /repo worktree remove --force '$wt' >/dev/null 2>&1; git -C /repo worktree prune' EXIT
git -C $wt apply /verif/seeded/$id/patch.diff || { echo "patch does not apply"; exit 2; }
rm -rf /verif/.cache/alt/replays /verif/.cache/alt/evidence
cd /verif
for p in "$@"; do
  out=$(VERIF_ALT_REPO=$wt ./check $p --tier ${TIER:-quick} ${RUNS:+--runs $RUNS} --nodeterminism 2>&1)
  code=$?
  echo "== $id / $p: exit $code"
  echo "$out" | grep -E "^(VIOLATION|violation|INFRA|runs=)" | head -6
done
