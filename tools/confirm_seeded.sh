#!/bin/bash
# usage: confirm_seeded.sh <seeded-id> <demo-file-in-seeded-dir> <path-in-tree-for-demo> <go-package> <run-regex>
# Confirms in a scratch worktree: demo passes without the patch, fails with it; the repo builds and the
# existing suite passes with the patch. Writes seeded/<id>/confirmed.txt. Removes the worktree afterwards.
set -u
id=$1; demo=$2; dest=$3; pkg=$4; rx=$5
export GOFLAGS=-mod=mod GOPROXY=off GOSUMDB=off
wt=/tmp/confirm_$id
git -C /repo worktree remove --force $wt >/dev/null 2>&1
git -C /repo worktree add -q $wt HEAD || exit 2
out=/verif/seeded/$id/confirmed.txt
{
echo "commit: $(git -C /repo rev-parse HEAD)"
cp /verif/seeded/$id/$demo $wt/$dest
cd $wt
echo "--- demo WITHOUT the change (expect ok)"
go test -count=1 -run "$rx" $pkg 2>&1 | tail -3
git apply /verif/seeded/$id/patch.diff && echo "patch applied"
echo "--- build WITH the change"
go build ./... 2>&1 | tail -3 && echo "build ok"
echo "--- demo WITH the change (expect FAIL)"
go test -count=1 -run "$rx" $pkg 2>&1 | grep -E "^(--- FAIL|FAIL|ok)" | head -8
echo "--- existing suite WITH the change, demo removed (expect all ok)"
rm -f $wt/$dest
go test -count=1 ./block/... ./manifest/... ./orchestrator/... ./pipeline/... ./service/... ./storage/... ./sqe/... ./test/... ./wasm/... ./reqctx/... ./metrics/... ./client/... ./tools/... 2>&1 | grep -v "no test files" | awk '{print $1, $2}' | sort | uniq -c | sort -rn | head -40
} > $out 2>&1
cd /; git -C /repo worktree remove --force $wt
grep -c "^ *1 ok" $out; grep -E "FAIL" $out | head -5
