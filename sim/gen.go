package sim

// Scenario generation: packages (module graphs with simvm programs), chains, requests.

import (
	"fmt"
	"sort"
	"strings"
	"sync"

	"github.com/streamingfast/substreams/manifest"
	"google.golang.org/protobuf/proto"

	pbsubstreams "github.com/streamingfast/substreams/pb/sf/substreams/v1"
)

const BlockType = "sf.substreams.v1.test.Block"

type FilterDef struct {
	IndexMod   string `json:"index"`
	Query      string `json:"query"`
	FromParams bool   `json:"from_params,omitempty"`
	Expr       *Expr  `json:"expr"`
}

type ModDef struct {
	Spec    ModSpec    `json:"spec"`
	Initial uint64     `json:"initial"`
	Param   string     `json:"param,omitempty"`
	Filter  *FilterDef `json:"filter,omitempty"`
}

type PkgDef struct {
	Mods   []*ModDef `json:"mods"`
	Output string    `json:"output"`
	// Spkg: path of a compiled package (run on the real wazero runtime) instead of generated simvm programs
	Spkg string `json:"spkg,omitempty"`
}

var spkgCache sync.Map

func loadSpkg(path string) *pbsubstreams.Modules {
	if v, ok := spkgCache.Load(path); ok {
		return proto.Clone(v.(*pbsubstreams.Modules)).(*pbsubstreams.Modules)
	}
	rd, err := manifest.NewReader(path)
	if err != nil {
		panic(fmt.Errorf("reading %s: %w", path, err))
	}
	b, err := rd.Read()
	if err != nil {
		panic(fmt.Errorf("reading %s: %w", path, err))
	}
	spkgCache.Store(path, b.Package.Modules)
	return proto.Clone(b.Package.Modules).(*pbsubstreams.Modules)
}

func (p *PkgDef) Mod(name string) *ModDef {
	for _, m := range p.Mods {
		if m.Spec.Name == name {
			return m
		}
	}
	return nil
}

func (p *PkgDef) Clone() *PkgDef {
	out := &PkgDef{Output: p.Output, Spkg: p.Spkg}
	for _, m := range p.Mods {
		c := *m
		c.Spec.Inputs = append([]InSpec(nil), m.Spec.Inputs...)
		c.Spec.IdxKeys = append([]string(nil), m.Spec.IdxKeys...)
		if m.Filter != nil {
			f := *m.Filter
			c.Filter = &f
		}
		out.Mods = append(out.Mods, &c)
	}
	return out
}

var policyEnum = map[string]pbsubstreams.Module_KindStore_UpdatePolicy{
	"set":    pbsubstreams.Module_KindStore_UPDATE_POLICY_SET,
	"setnx":  pbsubstreams.Module_KindStore_UPDATE_POLICY_SET_IF_NOT_EXISTS,
	"add":    pbsubstreams.Module_KindStore_UPDATE_POLICY_ADD,
	"min":    pbsubstreams.Module_KindStore_UPDATE_POLICY_MIN,
	"max":    pbsubstreams.Module_KindStore_UPDATE_POLICY_MAX,
	"append": pbsubstreams.Module_KindStore_UPDATE_POLICY_APPEND,
	"setsum": pbsubstreams.Module_KindStore_UPDATE_POLICY_SET_SUM,
}

// Modules renders the package as the protobuf the engine consumes. One binary per module.
func (p *PkgDef) Modules() *pbsubstreams.Modules {
	if p.Spkg != "" {
		return loadSpkg(p.Spkg)
	}
	out := &pbsubstreams.Modules{}
	for i, m := range p.Mods {
		out.Binaries = append(out.Binaries, &pbsubstreams.Binary{Type: "wasm/rust-v1", Content: m.Spec.Binary()})
		mod := &pbsubstreams.Module{
			Name:             m.Spec.Name,
			BinaryIndex:      uint32(i),
			BinaryEntrypoint: "run_" + m.Spec.Name,
			InitialBlock:     m.Initial,
		}
		switch m.Spec.Kind {
		case "map":
			mod.Kind = &pbsubstreams.Module_KindMap_{KindMap: &pbsubstreams.Module_KindMap{OutputType: "proto:sim.Out"}}
			mod.Output = &pbsubstreams.Module_Output{Type: "proto:sim.Out"}
		case "index":
			mod.Kind = &pbsubstreams.Module_KindBlockIndex_{KindBlockIndex: &pbsubstreams.Module_KindBlockIndex{OutputType: "proto:sf.substreams.index.v1.Keys"}}
			mod.Output = &pbsubstreams.Module_Output{Type: "proto:sf.substreams.index.v1.Keys"}
		case "store":
			vt := m.Spec.VType
			mod.Kind = &pbsubstreams.Module_KindStore_{KindStore: &pbsubstreams.Module_KindStore{UpdatePolicy: policyEnum[m.Spec.Policy], ValueType: vt}}
		}
		for _, in := range m.Spec.Inputs {
			switch in.Kind {
			case "params":
				mod.Inputs = append(mod.Inputs, &pbsubstreams.Module_Input{Input: &pbsubstreams.Module_Input_Params_{Params: &pbsubstreams.Module_Input_Params{Value: m.Param}}})
			case "block":
				mod.Inputs = append(mod.Inputs, &pbsubstreams.Module_Input{Input: &pbsubstreams.Module_Input_Source_{Source: &pbsubstreams.Module_Input_Source{Type: BlockType}}})
			case "clock":
				mod.Inputs = append(mod.Inputs, &pbsubstreams.Module_Input{Input: &pbsubstreams.Module_Input_Source_{Source: &pbsubstreams.Module_Input_Source{Type: "sf.substreams.v1.Clock"}}})
			case "map":
				mod.Inputs = append(mod.Inputs, &pbsubstreams.Module_Input{Input: &pbsubstreams.Module_Input_Map_{Map: &pbsubstreams.Module_Input_Map{ModuleName: in.Name}}})
			case "store":
				mod.Inputs = append(mod.Inputs, &pbsubstreams.Module_Input{Input: &pbsubstreams.Module_Input_Store_{Store: &pbsubstreams.Module_Input_Store{ModuleName: in.Name, Mode: pbsubstreams.Module_Input_Store_GET}}})
			case "deltas":
				mod.Inputs = append(mod.Inputs, &pbsubstreams.Module_Input{Input: &pbsubstreams.Module_Input_Store_{Store: &pbsubstreams.Module_Input_Store{ModuleName: in.Name, Mode: pbsubstreams.Module_Input_Store_DELTAS}}})
			}
		}
		if f := m.Filter; f != nil {
			bf := &pbsubstreams.Module_BlockFilter{Module: f.IndexMod}
			if f.FromParams {
				bf.Query = &pbsubstreams.Module_BlockFilter_QueryFromParams{QueryFromParams: &pbsubstreams.Module_QueryFromParams{}}
			} else {
				bf.Query = &pbsubstreams.Module_BlockFilter_QueryString{QueryString: f.Query}
			}
			mod.BlockFilter = bf
		}
		out.Modules = append(out.Modules, mod)
	}
	return out
}

// ---- filter expressions (own tree, rendered to the sqe syntax) ----

type Expr struct {
	Op   string  `json:"op"` // key | and | or
	Key  string  `json:"key,omitempty"`
	Kids []*Expr `json:"kids,omitempty"`
}

func (e *Expr) Eval(keys map[string]bool) bool {
	switch e.Op {
	case "key":
		return keys[e.Key]
	case "and":
		for _, k := range e.Kids {
			if !k.Eval(keys) {
				return false
			}
		}
		return true
	default:
		for _, k := range e.Kids {
			if k.Eval(keys) {
				return true
			}
		}
		return false
	}
}

func (e *Expr) Render(r *Rng) string {
	switch e.Op {
	case "key":
		out := e.Key
		switch r.Intn(3) {
		case 0:
			out = `"` + e.Key + `"`
		case 1:
			out = `'` + e.Key + `'`
		}
		if r.Chance(1, 4) {
			out = "(" + out + ")" // a parenthesised single term is legal and means the same
			if r.Chance(1, 4) {
				out = "( " + out + " )"
			}
		}
		return out
	}
	sep := " || "
	if e.Op == "and" {
		sep = " && "
		if r.Chance(1, 3) {
			sep = " " // implicit and
		}
	}
	var parts []string
	for _, k := range e.Kids {
		parts = append(parts, k.Render(r))
	}
	return "(" + strings.Join(parts, sep) + ")"
}

func genExpr(r *Rng, keys []string, depth int) *Expr {
	if depth == 0 || r.Chance(2, 5) {
		return &Expr{Op: "key", Key: keys[r.Intn(len(keys))]}
	}
	e := &Expr{Op: "and"}
	if r.Chance(3, 5) {
		e.Op = "or"
	}
	n := r.Range(2, 3)
	for i := 0; i < n; i++ {
		e.Kids = append(e.Kids, genExpr(r, keys, depth-1))
	}
	return e
}

// ---- package generator ----

type GenOpts struct {
	MinMods, MaxMods int
	InitChoices      []uint64 // candidate initial blocks
	WantStores       int      // minimum number of stores (0 = any)
	WantIndex        bool
	MaxIndex         int // index modules per package (default 1)
	NoIndex          bool
	NoDelete         bool
	Policies         []string // restrict policies
	BigVal           int
	MaxOps           int
	FilterPm         int // permille of eligible modules that get a block filter (0 = default 333)
}

var allPolicyTypes = [][2]string{
	{"set", "bytes"}, {"setnx", "bytes"}, {"append", "bytes"},
	{"add", "int64"}, {"add", "float64"}, {"add", "bigint"}, {"add", "bigdecimal"},
	{"min", "int64"}, {"min", "float64"}, {"min", "bigint"}, {"min", "bigdecimal"},
	{"max", "int64"}, {"max", "float64"}, {"max", "bigint"}, {"max", "bigdecimal"},
	{"setsum", "int64"}, {"setsum", "float64"}, {"setsum", "bigint"}, {"setsum", "bigdecimal"},
	{"set", "string"}, {"setnx", "string"}, {"append", "string"},
}

func GenPackage(r *Rng, o GenOpts) *PkgDef {
	if o.MinMods == 0 {
		o.MinMods, o.MaxMods = 3, 7
	}
	if len(o.InitChoices) == 0 {
		o.InitChoices = []uint64{0}
	}
	if o.MaxOps == 0 {
		o.MaxOps = 3
	}
	n := r.Range(o.MinMods, o.MaxMods)
	p := &PkgDef{}
	var maps, stores, idxs []*ModDef
	for i := 0; i < n; i++ {
		m := &ModDef{}
		m.Spec.Salt = r.U64()
		m.Spec.V = 1
		m.Spec.FailAt = -1
		last := i == n-1
		kind := "map"
		x := r.Intn(100)
		switch {
		case last:
			kind = "map"
		case len(stores) < o.WantStores:
			kind = "store"
		case o.WantIndex && len(idxs) == 0 && i == 0:
			kind = "index"
		case o.WantIndex && o.MaxIndex >= 2 && len(idxs) == 1 && i == 1:
			kind = "index" // two index modules with the same key strings on different blocks
		case x < 42:
			kind = "store"
		case x < 52 && !o.NoIndex && len(idxs) < max(1, o.MaxIndex):
			kind = "index"
		}
		m.Spec.Kind = kind
		m.Spec.Name = fmt.Sprintf("%s%d", map[string]string{"map": "m", "store": "s", "index": "x"}[kind], i)

		// inputs
		var ins []InSpec
		minInit := uint64(0)
		hasAlways := false
		addDep := func(d *ModDef, kind string) {
			for _, e := range ins {
				if e.Name == d.Spec.Name {
					return
				}
			}
			ins = append(ins, InSpec{Kind: kind, Name: d.Spec.Name, SetSum: d.Spec.Policy == "setsum", Float: d.Spec.VType == "float64"})
			if d.Initial > minInit {
				minInit = d.Initial
			}
		}
		if kind == "index" {
			ins = append(ins, InSpec{Kind: "block"})
			hasAlways = true
			m.Spec.IdxKeys = []string{"a", "b", "c", "d"}
		} else {
			shape := r.Intn(100)
			haveDeps := len(maps)+len(stores) > 0
			switch {
			case shape < 7 && !last: // params-only
				ins = append(ins, InSpec{Kind: "params"})
				m.Param = fmt.Sprintf("p%d", r.Intn(1000))
				hasAlways = true
			case shape < 14 && !last: // clock-only
				ins = append(ins, InSpec{Kind: "clock"})
				hasAlways = true
			default:
				if r.Chance(1, 8) {
					ins = append(ins, InSpec{Kind: "params"})
					m.Param = fmt.Sprintf("p%d", r.Intn(1000))
				}
				if r.Chance(2, 5) || !haveDeps {
					if r.Chance(1, 5) {
						ins = append(ins, InSpec{Kind: "clock"})
					} else {
						ins = append(ins, InSpec{Kind: "block"})
					}
					hasAlways = true
				}
				nd := r.Range(1, 2)
				if last {
					nd = r.Range(2, 3)
				}
				if !haveDeps {
					nd = 0
				}
				pickStore := func() *ModDef {
					// bias towards the most recent stores (deeper stage chains)
					if r.Chance(1, 2) {
						return stores[len(stores)-1]
					}
					return stores[r.Intn(len(stores))]
				}
				for k := 0; k < nd; k++ {
					choice := r.Intn(4)
					if last && k == 0 && len(stores) > 0 {
						choice = 1
					}
					switch {
					case choice == 0 && len(maps) > 0:
						addDep(maps[r.Intn(len(maps))], "map")
					case (choice == 1 || choice == 3) && len(stores) > 0:
						addDep(pickStore(), "store")
					case choice == 2 && len(stores) > 0:
						addDep(pickStore(), "deltas")
					case len(maps) > 0:
						addDep(maps[r.Intn(len(maps))], "map")
					case len(stores) > 0:
						addDep(pickStore(), "store")
					}
				}
				if len(ins) == 0 {
					ins = append(ins, InSpec{Kind: "block"})
					hasAlways = true
				}
			}
		}
		// a "store" (get) and "deltas" on the same upstream are both fine, but a module must not list the same module twice (handled in addDep)
		m.Spec.Inputs = ins

		// initial block: usually >= deps' (so an input exists at the initial block)
		cands := []uint64{}
		for _, c := range o.InitChoices {
			if c >= minInit {
				cands = append(cands, c)
			}
		}
		if len(cands) == 0 {
			cands = []uint64{minInit}
		}
		m.Initial = cands[r.Intn(len(cands))]
		if hasAlways && r.Chance(1, 6) {
			m.Initial = o.InitChoices[r.Intn(len(o.InitChoices))] // may be below a dependency's
		}
		if kind == "index" {
			m.Initial = o.InitChoices[0]
			for _, c := range o.InitChoices {
				if c < m.Initial {
					m.Initial = c
				}
			}
		}

		switch kind {
		case "map":
			m.Spec.EmptyPm = []int{0, 150, 400, 800}[r.Intn(4)]
			m.Spec.SkipEmp = r.Chance(1, 2)
		case "store":
			pts := allPolicyTypes
			if len(o.Policies) > 0 {
				pts = nil
				for _, pt := range allPolicyTypes {
					for _, w := range o.Policies {
						if pt[0] == w {
							pts = append(pts, pt)
						}
					}
				}
			}
			pt := pts[r.Intn(len(pts))]
			m.Spec.Policy, m.Spec.VType = pt[0], pt[1]
			m.Spec.Keys = r.Range(2, 8)
			m.Spec.MaxOps = r.Range(1, o.MaxOps)
			if !o.NoDelete {
				m.Spec.DelPm = []int{0, 0, 60, 200}[r.Intn(4)]
			}
			m.Spec.BigVal = o.BigVal
		}

		// block filter
		fpm := o.FilterPm
		if fpm == 0 {
			fpm = 333
		}
		if kind != "index" && len(idxs) > 0 && r.Intn(1000) < fpm {
			ix := idxs[r.Intn(len(idxs))]
			if ix.Initial <= m.Initial {
				e := genExpr(r, ix.Spec.IdxKeys, 2)
				f := &FilterDef{IndexMod: ix.Spec.Name, Expr: e, Query: e.Render(r)}
				if len(ins) > 0 && ins[0].Kind == "params" && r.Chance(1, 2) {
					f.FromParams = true
					m.Param = f.Query
				}
				m.Filter = f
			}
		}

		p.Mods = append(p.Mods, m)
		switch kind {
		case "map":
			maps = append(maps, m)
		case "store":
			stores = append(stores, m)
		case "index":
			idxs = append(idxs, m)
		}
	}
	// output: the last map, or sometimes another map
	p.Output = maps[len(maps)-1].Spec.Name
	if len(maps) > 1 && r.Chance(1, 5) {
		p.Output = maps[r.Intn(len(maps))].Spec.Name
	}
	return p
}

// Ancestors returns the names of output and all its transitive dependencies (incl. index modules of filters).
func (p *PkgDef) Ancestors(name string) map[string]bool {
	seen := map[string]bool{}
	var walk func(n string)
	walk = func(n string) {
		if seen[n] {
			return
		}
		seen[n] = true
		m := p.Mod(n)
		if m == nil {
			return
		}
		for _, in := range m.Spec.Inputs {
			if in.Name != "" {
				walk(in.Name)
			}
		}
		if m.Filter != nil {
			walk(m.Filter.IndexMod)
		}
	}
	walk(name)
	return seen
}

// Prune drops modules that are not ancestors of the output (used by minimisation).
func (p *PkgDef) Prune() *PkgDef {
	anc := p.Ancestors(p.Output)
	out := &PkgDef{Output: p.Output}
	for _, m := range p.Mods {
		if anc[m.Spec.Name] {
			out.Mods = append(out.Mods, m)
		}
	}
	return out
}

func (p *PkgDef) Summary() string {
	if p.Spkg != "" {
		return "spkg:" + p.Spkg + " -> " + p.Output
	}
	var parts []string
	for _, m := range p.Mods {
		var ins []string
		for _, in := range m.Spec.Inputs {
			if in.Name != "" {
				ins = append(ins, in.Kind+":"+in.Name)
			} else {
				ins = append(ins, in.Kind)
			}
		}
		s := fmt.Sprintf("%s@%d(%s)", m.Spec.Name, m.Initial, strings.Join(ins, ","))
		if m.Spec.Kind == "store" {
			s += "[" + m.Spec.Policy + "/" + m.Spec.VType + "]"
		}
		if m.Filter != nil {
			s += "{" + m.Filter.IndexMod + ":" + m.Filter.Query + "}"
		}
		if m.Spec.FailAt >= 0 {
			s += fmt.Sprintf("!fail@%d", m.Spec.FailAt)
		}
		parts = append(parts, s)
	}
	return strings.Join(parts, " ") + " -> " + p.Output
}

func sortedKeys[V any](m map[string]V) []string {
	out := make([]string, 0, len(m))
	for k := range m {
		out = append(out, k)
	}
	sort.Strings(out)
	return out
}
