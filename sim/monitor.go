package sim

import (
	"github.com/streamingfast/substreams/orchestrator/loop"
)

// Monitor holds the seam monitors used by C05 (filled in monitor_c05.go).
type Monitor struct {
	Violations []string
	impl       monitorImpl
}

type monitorImpl interface {
	JobAccepted(e *Env, j *JobInfo)
	JobEnded(e *Env, j *JobInfo, err error)
	LoopMsg(e *Env, msg loop.Msg)
}

func (m *Monitor) JobAccepted(e *Env, j *JobInfo) {
	if m.impl != nil {
		m.impl.JobAccepted(e, j)
	}
}
func (m *Monitor) JobEnded(e *Env, j *JobInfo, err error) {
	if m.impl != nil {
		m.impl.JobEnded(e, j, err)
	}
}
func (m *Monitor) LoopMsg(e *Env, msg loop.Msg) {
	if m.impl != nil {
		m.impl.LoopMsg(e, msg)
	}
}
