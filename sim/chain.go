package sim

// SimChain: the block source. Fork-free streams emit new / new+final / final
// steps directly; fork scenarios push a generated fork tree through the real
// bstream/forkable and deliver what it emits.

import (
	"context"
	"fmt"
	"io"
	"os"
	"time"

	"github.com/streamingfast/bstream"
	"github.com/streamingfast/bstream/forkable"
	pbbstream "github.com/streamingfast/bstream/pb/sf/bstream/v1"
	bsstream "github.com/streamingfast/bstream/stream"
	pbsubstreamstest "github.com/streamingfast/substreams/pb/sf/substreams/v1/test"
	"github.com/streamingfast/substreams/pipeline"
	"github.com/streamingfast/substreams/service"
	"go.uber.org/zap"
	"google.golang.org/protobuf/proto"
	"google.golang.org/protobuf/types/known/anypb"
	"google.golang.org/protobuf/types/known/timestamppb"
)

type CBlock struct {
	Num    uint64 `json:"num"`
	ID     string `json:"id"`
	Parent string `json:"parent"`
	Lib    uint64 `json:"lib"` // LIB number carried by the block (fork scenarios)
}

func (b *CBlock) Ref() bstream.BlockRef { return bstream.NewBlockRef(b.ID, b.Num) }

var chainEpoch = time.Date(2024, 1, 1, 0, 0, 0, 0, time.UTC)

func (b *CBlock) PB() *pbbstream.Block {
	return &pbbstream.Block{
		Id:        b.ID,
		Number:    b.Num,
		ParentId:  b.Parent,
		ParentNum: parentNum(b.Num),
		Timestamp: timestamppb.New(chainEpoch.Add(time.Duration(b.Num) * time.Second)),
		LibNum:    b.Lib,
		Payload:   &anypb.Any{TypeUrl: "type.googleapis.com/" + BlockType, Value: blockPayload(b)},
	}
}

func parentNum(n uint64) uint64 {
	if n == 0 {
		return 0
	}
	return n - 1
}

// Chain: canonical final chain First..Head, plus optionally a fork scenario above ForkBase.
type Chain struct {
	First  uint64    `json:"first"`
	Blocks []*CBlock `json:"-"` // canonical blocks, index i = number First+i
	Head   uint64    `json:"head"`
	// Fork scenario (nil = fork free): arrival order of blocks above ForkBase
	Fork *ForkScenario `json:"fork,omitempty"`
	// ConfDepth: in fork-free live part, a block becomes final when it is ConfDepth below the head
	ConfDepth uint64 `json:"conf_depth"`
}

type ForkScenario struct {
	Base    uint64    `json:"base"`    // last block of the final linear prefix (LIB at start)
	Arrival []*CBlock `json:"arrival"` // blocks in arrival order (each names its parent and LIB)
}

func canonID(n uint64) string { return fmt.Sprintf("%da", n) }

func NewLinearChain(first, head uint64) *Chain {
	c := &Chain{First: first, Head: head, ConfDepth: 3}
	for n := first; n <= head; n++ {
		p := ""
		if n > first {
			p = canonID(n - 1)
		} else if n > 0 {
			p = canonID(n - 1)
		}
		c.Blocks = append(c.Blocks, &CBlock{Num: n, ID: canonID(n), Parent: p, Lib: parentNum(n)})
	}
	return c
}

func (c *Chain) At(n uint64) *CBlock {
	if n < c.First || n > c.Head {
		return nil
	}
	return c.Blocks[n-c.First]
}

type stepObj struct {
	cursor   *bstream.Cursor
	step     bstream.StepType
	junction bstream.BlockRef
}

func (o *stepObj) Cursor() *bstream.Cursor { return o.cursor }
func (o *stepObj) Step() bstream.StepType  { return o.step }
func (o *stepObj) FinalBlockHeight() uint64 {
	return o.cursor.LIB.Num()
}
func (o *stepObj) ReorgJunctionBlock() bstream.BlockRef {
	if o.step != bstream.StepUndo {
		return nil
	}
	return o.junction
}

// StreamObserver is told about every step delivered to a pipeline.
type StreamObserver interface {
	// BeforeStep may return an error to inject (e.g. crash); AfterStep sees the pipeline after the step.
	AfterStep(pipe *pipeline.Pipeline, blk *CBlock, step bstream.StepType, err error)
}

// StreamStartObserver is told about a pipeline before its first block (stores set up, nothing processed yet).
type StreamStartObserver interface {
	BeforeStream(pipe *pipeline.Pipeline)
}

type simStream struct {
	env       *Env
	node      string
	h         bstream.Handler
	pipe      *pipeline.Pipeline
	start     uint64
	stop      uint64
	finalMax  uint64 // blocks <= finalMax are delivered new+final from "files"
	tier2     bool
	finalOnly bool
	obs       StreamObserver
	yield     bool
}

func unwrapPipeline(h bstream.Handler) *pipeline.Pipeline {
	switch x := h.(type) {
	case *pipeline.Pipeline:
		return x
	case *service.LiveBackFiller:
		if p, ok := x.NextHandler.(*pipeline.Pipeline); ok {
			return p
		}
	}
	return nil
}

func (s *simStream) deliver(blk *CBlock, obj *stepObj) error {
	if s.stop != 0 && blk.Num > s.stop {
		return bsstream.ErrStopBlockReached
	}
	if s.yield {
		d := s.env.Sim.Yield(s.node, fmt.Sprintf("%s|blk|%s/%s", s.node, blk.ID, obj.step.String()))
		if d.Killed {
			return context.Canceled
		}
	}
	err := s.h.ProcessBlock(blk.PB(), obj)
	if s.obs != nil {
		s.obs.AfterStep(s.pipe, blk, obj.step, err)
	}
	if err != nil {
		return err
	}
	if s.stop != 0 && blk.Num == s.stop {
		return bsstream.ErrStopBlockReached
	}
	return nil
}

func (s *simStream) Run(ctx context.Context) error {
	c := s.env.Chain
	if so, ok := s.obs.(StreamStartObserver); ok && s.pipe != nil {
		so.BeforeStream(s.pipe)
	}
	if c.Fork != nil && !s.tier2 {
		return s.runFork(ctx)
	}
	n := s.start
	if n < c.First {
		n = c.First
	}
	type pend struct{ b *CBlock }
	var lastFinal *CBlock
	for ; n <= c.Head; n++ {
		if err := ctx.Err(); err != nil {
			return err
		}
		b := c.At(n)
		if s.tier2 || n <= s.finalMax {
			ref := b.Ref()
			obj := &stepObj{step: bstream.StepNewIrreversible, cursor: &bstream.Cursor{Step: bstream.StepNewIrreversible, Block: ref, LIB: ref, HeadBlock: ref}}
			if err := s.deliver(b, obj); err != nil {
				return err
			}
			lastFinal = b
			continue
		}
		// live part: new, then finality for the block ConfDepth below
		libRef := bstream.BlockRef(bstream.NewBlockRef("", 0))
		if lastFinal != nil {
			libRef = lastFinal.Ref()
		} else if prev := c.At(s.finalMax); prev != nil {
			libRef = prev.Ref()
		} else if n > c.First {
			libRef = c.At(c.First).Ref()
		} else {
			libRef = b.Ref()
		}
		ref := b.Ref()
		if !s.finalOnly { // a final-blocks-only stream never shows reversible steps
			obj := &stepObj{step: bstream.StepNew, cursor: &bstream.Cursor{Step: bstream.StepNew, Block: ref, LIB: libRef, HeadBlock: ref}}
			if err := s.deliver(b, obj); err != nil {
				return err
			}
		}
		if n >= c.ConfDepth {
			fn := n - c.ConfDepth
			if fb := c.At(fn); fb != nil && fn > s.finalMax && fn >= s.start && (lastFinal == nil || fn > lastFinal.Num) {
				fref := fb.Ref()
				fobj := &stepObj{step: bstream.StepIrreversible, cursor: &bstream.Cursor{Step: bstream.StepIrreversible, Block: fref, LIB: fref, HeadBlock: ref}}
				if err := s.deliver(fb, fobj); err != nil {
					return err
				}
				lastFinal = fb
			}
		}
	}
	// the chain has no more blocks: a real stream would wait for the next one
	return io.ErrUnexpectedEOF
}

// runFork pushes the final prefix, then the fork scenario through the real forkable.
func (s *simStream) runFork(ctx context.Context) error {
	c := s.env.Chain
	f := c.Fork
	// final linear prefix start..Base
	// The two blocks below the fork region go through the forkable as well (Base-1 as its inclusive
	// LIB, Base as an ordinary linked block) so that Base can be reported as a reorg junction.
	libN := f.Base
	if f.Base > c.First && f.Base > 0 {
		libN = f.Base - 1
	}
	for n := max(s.start, c.First); n < libN; n++ {
		b := c.At(n)
		ref := b.Ref()
		obj := &stepObj{step: bstream.StepNewIrreversible, cursor: &bstream.Cursor{Step: bstream.StepNewIrreversible, Block: ref, LIB: ref, HeadBlock: ref}}
		if err := s.deliver(b, obj); err != nil {
			return err
		}
	}
	base := c.At(f.Base)
	byID := map[string]*CBlock{}
	for _, b := range f.Arrival {
		byID[b.ID] = b
	}
	var herr error
	fk := forkable.New(bstream.HandlerFunc(func(blk *pbbstream.Block, obj interface{}) error {
		fo := obj.(*forkable.ForkableObject)
		cb := byID[blk.Id]
		if cb == nil {
			cb = &CBlock{Num: blk.Number, ID: blk.Id, Parent: blk.ParentId}
		}
		so := &stepObj{step: fo.Step(), cursor: fo.Cursor(), junction: fo.ReorgJunctionBlock()}
		if os.Getenv("SIM_DUMPMSGS") == "1" {
			fmt.Printf("FORKABLE %s %s junction=%v\n", fo.Step(), blk.Id, fo.ReorgJunctionBlock())
		}
		if cb.Num < s.start {
			return nil
		}
		if err := s.deliver(cb, so); err != nil {
			herr = err
			return err
		}
		return nil
	}), forkable.HoldBlocksUntilLIB(), forkable.WithWarnOnUnlinkableBlocks(1000), forkable.WithInclusiveLIB(c.At(libN).Ref()), forkable.WithLogger(zap.NewNop()))
	byID[base.ID] = base
	feed := []*CBlock{}
	if libN != f.Base {
		lb := *c.At(libN)
		lb.Lib = libN
		byID[lb.ID] = &lb
		feed = append(feed, &lb)
		bb := *base
		bb.Lib = libN
		feed = append(feed, &bb)
	} else {
		feed = append(feed, base)
	}
	for _, b := range append(feed, f.Arrival...) {
		if err := ctx.Err(); err != nil {
			return err
		}
		if err := fk.ProcessBlock(b.PB(), nil); err != nil {
			if herr != nil {
				return herr
			}
			return fmt.Errorf("forkable: %w", err)
		}
	}
	return io.ErrUnexpectedEOF
}

// blockPayload is a real sf.substreams.v1.test.Block so that compiled test packages can decode it.
func blockPayload(b *CBlock) []byte {
	out, err := proto.Marshal(&pbsubstreamstest.Block{Id: b.ID, Number: b.Num})
	if err != nil {
		panic(err)
	}
	return out
}
