package sim

// Deterministic scheduler: real goroutines parked at yield points and released
// one at a time by the bubble's main goroutine. Every decision is a pure
// function H(seed, domain, label, occurrence) so that the order in which
// concurrent goroutines reach their yield points (Go runtime / map iteration
// order inside /repo) does not move decisions between logical events.

import (
	"encoding/binary"
	"fmt"
	"hash/fnv"
	"sort"
	"strings"
	"sync"
	"testing/synctest"
	"time"
)

// H is the single source of pseudo-randomness.
func H(seed uint64, parts ...string) uint64 {
	h := fnv.New64a()
	var b [8]byte
	binary.LittleEndian.PutUint64(b[:], seed)
	h.Write(b[:])
	for _, p := range parts {
		h.Write([]byte{0x1f})
		h.Write([]byte(p))
	}
	return mix64(h.Sum64())
}

func mix64(z uint64) uint64 {
	z += 0x9e3779b97f4a7c15
	z = (z ^ (z >> 30)) * 0xbf58476d1ce4e5b9
	z = (z ^ (z >> 27)) * 0x94d049bb133111eb
	return z ^ (z >> 31)
}

// Rng is a tiny splitmix stream used only for *generation* (scenario trees),
// always seeded from H(seed, "gen", path) so it never couples concurrent activities.
type Rng struct{ s uint64 }

func NewRng(seed uint64, path ...string) *Rng { return &Rng{s: H(seed, path...)} }
func (r *Rng) U64() uint64 {
	r.s += 0x9e3779b97f4a7c15
	z := r.s
	z = (z ^ (z >> 30)) * 0xbf58476d1ce4e5b9
	z = (z ^ (z >> 27)) * 0x94d049bb133111eb
	return z ^ (z >> 31)
}
func (r *Rng) Intn(n int) int {
	if n <= 0 {
		return 0
	}
	return int(r.U64() % uint64(n))
}
func (r *Rng) Range(lo, hi int) int     { return lo + r.Intn(hi-lo+1) } // inclusive
func (r *Rng) Chance(num, den int) bool { return r.Intn(den) < num }

// Decision is what a released task is told.
type Decision struct {
	Killed bool   // the node was crashed: the operation has no effect
	Fault  string // injected fault kind ("" = none)
	Arg    int    // fault parameter (e.g. bytes before a short read)
}

type task struct {
	node  string
	label string
	occ   int
	prio  uint64
	ch    chan Decision
	fk    []string // fault kinds this site accepts
}

// Policy selects how the next task is chosen.
type Policy int

const (
	PolicyCanonical Policy = iota // lowest label first, no stalls
	PolicyHashed                  // H(seed, prio, label, occ)
	PolicyClass                   // priority per label class (systematic starvation of some classes)
	PolicyReverse                 // highest label first
	// PolicyNode: one persistent priority per job attempt (all operations of a tier2 job move together, so whole
	// jobs finish in a seeded permutation of their launch order) and per label class elsewhere; at seeded
	// (label, occurrence) change points the unit that was about to run is demoted below everything else
	// (the priority-change points of probabilistic concurrency testing, addressed order-insensitively).
	PolicyNode
)

func (p Policy) String() string {
	return [...]string{"canonical", "hashed", "class", "reverse", "node"}[p]
}

// FaultPlan describes which fault kinds are enabled and how often (per 1000 eligible sites).
type FaultPlan struct {
	Rate map[string]int // kind -> permille
	Max  map[string]int // kind -> max fires per run (0 = unlimited)
	// Nth: kind -> fire exactly at the n-th eligible site of that kind (1-based, in encounter order), once.
	// Used by the placement sweeps: consecutive run seeds walk a fault over every site of one base scenario.
	Nth map[string]int
	// Forced decisions by address (used by replay/minimisation): "label#occ" -> kind ("" disables)
	Forced map[string]string
	// Disabled addresses
	Off map[string]bool
}

type Sim struct {
	Seed   uint64
	Policy Policy
	Faults FaultPlan
	// StallPermille: chance per step (with tasks parked) that the scheduler lets virtual time pass.
	StallPermille int

	mu         sync.Mutex
	parked     []*task
	occ        map[string]int
	wake       chan struct{}
	free       bool // drain mode: yields return immediately
	killed     map[string]bool
	killAt     map[string]string // node -> "label#occ" at which it is crashed
	onKill     map[string]func()
	fired      map[string]int
	firedGroup map[string]int // "deadline@<job unit>" -> timeouts injected on that unit
	eligible   map[string]int // kind -> eligible sites seen so far (for FaultPlan.Nth)
	firedAt    []string
	steps      int
	stalls     int
	maxParked  int
	choicePts  int // steps where >= 2 tasks were parked
	sigHash    uint64
	multiHash  uint64
	stalled    map[string]bool
	logText    []string
	keepText   bool
	start      time.Time
	lastFault  int // step of last injected fault
	demoted    map[string]uint64 // PolicyNode: unit -> demotion rank (later demotions rank lower)
	// Observers
	OnStep func(s *Sim, label string)
}

func NewSim(seed uint64, policy Policy) *Sim {
	return &Sim{
		Seed:       seed,
		Policy:     policy,
		occ:        map[string]int{},
		wake:       make(chan struct{}, 1),
		killed:     map[string]bool{},
		killAt:     map[string]string{},
		onKill:     map[string]func(){},
		fired:      map[string]int{},
		firedGroup: map[string]int{},
		eligible:   map[string]int{},
		keepText:   true,
		start:      time.Now(),
	}
}

func (s *Sim) Steps() int                    { return s.steps }
func (s *Sim) Fired() map[string]int         { return s.fired }
func (s *Sim) FiredAt() []string             { return s.firedAt }
func (s *Sim) LogHash() uint64               { return H(s.sigHash, fmt.Sprint(s.multiHash)) }
func (s *Sim) LogText() []string             { return s.logText }
func (s *Sim) ChoicePoints() int             { return s.choicePts }
func (s *Sim) VirtualElapsed() time.Duration { return time.Since(s.start) }

// logf records an event. The event-log hash is built from (a) an ordered hash chain over the
// significant events (loop messages, transport events, kills, notes) and (b) an order-insensitive
// multiset hash over all events: Go map iteration order inside /repo permutes independent
// sequential store operations of one goroutine, which must not change the fingerprint.
func (s *Sim) logf(format string, a ...any) {
	line := fmt.Sprintf(format, a...)
	s.multiHash += H(0x51, line)
	if strings.Contains(line, "loop|send|") || strings.Contains(line, "net|") || strings.HasPrefix(line, "kill") || strings.HasPrefix(line, "note") {
		s.sigHash = H(s.sigHash, line)
	}
	if s.keepText && len(s.logText) < 20000 {
		s.logText = append(s.logText, line)
	}
}

// Note records an event in the log from harness code running at quiescence or
// inside a released task (label must be deterministic).
func (s *Sim) Note(format string, a ...any) {
	s.mu.Lock()
	s.logf("note "+format, a...)
	s.mu.Unlock()
}

// RegisterNode declares a crashable node; cancel is called when it is killed.
func (s *Sim) RegisterNode(node string, cancel func()) {
	s.mu.Lock()
	s.onKill[node] = cancel
	s.mu.Unlock()
}

// KillNodeAt arranges for node to crash when the task "label#occ" of that node is chosen.
func (s *Sim) KillNodeAtStep(node string, nth int) {
	s.mu.Lock()
	s.killAt[node] = fmt.Sprintf("%d", nth)
	s.mu.Unlock()
}

func (s *Sim) IsKilled(node string) bool {
	s.mu.Lock()
	defer s.mu.Unlock()
	return s.killed[node]
}

// Kill crashes a node now: its context is cancelled, its parked operations return
// without effect, and later operations return immediately without effect.
func (s *Sim) Kill(node string) {
	s.mu.Lock()
	if s.killed[node] {
		s.mu.Unlock()
		return
	}
	s.killed[node] = true
	cancel := s.onKill[node]
	var rel []*task
	keep := s.parked[:0]
	for _, t := range s.parked {
		if t.node == node {
			rel = append(rel, t)
		} else {
			keep = append(keep, t)
		}
	}
	s.parked = keep
	s.logf("kill %s", node)
	s.mu.Unlock()
	if cancel != nil {
		cancel()
	}
	for _, t := range rel {
		t.ch <- Decision{Killed: true}
	}
}

// Free switches to drain mode: every parked and future yield returns at once.
func (s *Sim) Free() {
	s.mu.Lock()
	s.free = true
	rel := s.parked
	s.parked = nil
	s.mu.Unlock()
	for _, t := range rel {
		t.ch <- Decision{}
	}
}

// Yield parks the calling goroutine until the scheduler releases it.
// node identifies the crashable node performing the operation; label is a
// stable semantic name; faultKinds lists the fault kinds that make sense here.
func (s *Sim) Yield(node, label string, faultKinds ...string) Decision {
	if s == nil {
		return Decision{}
	}
	s.mu.Lock()
	if s.killed[node] {
		s.mu.Unlock()
		return Decision{Killed: true}
	}
	if s.free {
		s.mu.Unlock()
		return Decision{}
	}
	t := &task{node: node, label: label, ch: make(chan Decision, 1), fk: faultKinds}
	t.occ = s.occ[label]
	s.occ[label]++
	s.parked = append(s.parked, t)
	s.mu.Unlock()
	select {
	case s.wake <- struct{}{}:
	default:
	}
	return <-t.ch
}

func labelClass(label string) string {
	// strip digits so that "loop|send|JobSucceeded{1,2}" and "...{0,5}" share a class per stage only
	var b strings.Builder
	for _, r := range label {
		if r >= '0' && r <= '9' {
			continue
		}
		b.WriteRune(r)
	}
	return b.String()
}

func (s *Sim) prio(t *task) uint64 {
	switch s.Policy {
	case PolicyHashed:
		return H(s.Seed, "prio", t.label, fmt.Sprint(t.occ))
	case PolicyClass:
		c := H(s.Seed, "cls", labelClass(t.label)) >> 16 << 16
		return c | (H(s.Seed, "prio", t.label, fmt.Sprint(t.occ)) & 0xffff)
	case PolicyNode:
		u := schedUnit(t)
		low := H(s.Seed, "prio", t.label, fmt.Sprint(t.occ)) & 0xffff
		if r, ok := s.demoted[u]; ok {
			return (1<<30-r)<<16 | low // below every undemoted unit (those have bit 63 set), later demotions lower
		}
		return 1<<63 | H(s.Seed, "unit", u)>>17<<16 | low
	}
	return 0
}

// schedUnit is the unit that carries a persistent priority under PolicyNode.
func schedUnit(t *task) string {
	if strings.HasPrefix(t.node, "t2[") {
		return t.node
	}
	return labelClass(t.label)
}

func (s *Sim) choose(P []*task) *task {
	sort.Slice(P, func(i, j int) bool {
		if P[i].label != P[j].label {
			return P[i].label < P[j].label
		}
		return P[i].occ < P[j].occ
	})
	switch s.Policy {
	case PolicyCanonical:
		return P[0]
	case PolicyReverse:
		return P[len(P)-1]
	}
	best := P[0]
	bp := s.prio(best)
	for _, t := range P[1:] {
		if p := s.prio(t); p > bp {
			best, bp = t, p
		}
	}
	return best
}

// jobUnit extracts "r<req>,s<stage>,seg<n>" from a transport label "...t2[r1,s0,seg3,try2]...".
func jobUnit(label string) string {
	i := strings.Index(label, "t2[")
	if i < 0 {
		return ""
	}
	rest := label[i+3:]
	j := strings.Index(rest, ",try")
	if j < 0 {
		return ""
	}
	return rest[:j]
}

func (s *Sim) faultFor(t *task) Decision {
	addr := fmt.Sprintf("%s#%d", t.label, t.occ)
	if s.Faults.Forced != nil {
		if k, ok := s.Faults.Forced[addr]; ok {
			if k == "" {
				return Decision{}
			}
			return Decision{Fault: k, Arg: int(H(s.Seed, "farg", t.label, fmt.Sprint(t.occ)) % 64)}
		}
		if s.Faults.Rate == nil {
			return Decision{}
		}
	}
	if s.Faults.Off[addr] {
		return Decision{}
	}
	for _, k := range t.fk {
		if n := s.Faults.Nth[k]; n > 0 {
			s.eligible[k]++
			if s.eligible[k] == n {
				return Decision{Fault: k, Arg: int(H(s.Seed, "farg", t.label, fmt.Sprint(t.occ)) % 64)}
			}
		}
	}
	for _, k := range t.fk {
		rate := s.Faults.Rate[k]
		if rate == 0 {
			continue
		}
		if mx := s.Faults.Max[k]; mx > 0 && s.fired[k] >= mx {
			continue
		}
		// three execution timeouts on one job are fatal by design (RemoteWorker): a job unit gets at most two
		if strings.HasPrefix(k, "deadline_") {
			if g := jobUnit(t.label); g != "" && s.firedGroup["deadline@"+g] >= 2 {
				continue
			}
		}
		if int(H(s.Seed, "fault", k, t.label, fmt.Sprint(t.occ))%1000) < rate {
			return Decision{Fault: k, Arg: int(H(s.Seed, "farg", t.label, fmt.Sprint(t.occ)) % 64)}
		}
	}
	return Decision{}
}

type Outcome int

const (
	OutDone Outcome = iota
	OutHang         // nothing runnable, no progress within the virtual idle limit
	OutStepBudget
)

// Drive runs the scheduler loop in the calling (bubble main) goroutine until
// done is closed or a liveness budget is exhausted.
func (s *Sim) Drive(done <-chan struct{}, maxSteps int, idleLimit time.Duration) Outcome {
	for {
		synctest.Wait()
		select {
		case <-done:
			return OutDone
		default:
		}
		s.mu.Lock()
		P := append([]*task(nil), s.parked...)
		s.mu.Unlock()
		if len(P) == 0 {
			timer := time.NewTimer(idleLimit)
			select {
			case <-s.wake:
				timer.Stop()
			case <-done:
				timer.Stop()
				return OutDone
			case <-timer.C:
				return OutHang
			}
			continue
		}
		if s.steps >= maxSteps {
			return OutStepBudget
		}
		if len(P) > s.maxParked {
			s.maxParked = len(P)
		}
		if len(P) >= 2 {
			s.choicePts++
		}
		t := s.choose(P)
		if s.StallPermille > 0 && s.Policy != PolicyCanonical {
			addr := fmt.Sprintf("%s#%d", t.label, t.occ)
			if !s.stalled[addr] && int(H(s.Seed, "stall", t.label, fmt.Sprint(t.occ))%1000) < s.StallPermille {
				d := time.Duration(50+H(s.Seed, "stalld", t.label, fmt.Sprint(t.occ))%4000) * time.Millisecond
				s.stalls++
				if s.stalled == nil {
					s.stalled = map[string]bool{}
				}
				s.stalled[addr] = true
				time.Sleep(d) // slow node: timers fire while everything stays parked
				continue
			}
		}
		s.mu.Lock()
		// remove t
		for i, x := range s.parked {
			if x == t {
				s.parked = append(s.parked[:i], s.parked[i+1:]...)
				break
			}
		}
		s.steps++
		if s.Policy == PolicyNode && H(s.Seed, "demote", t.label, fmt.Sprint(t.occ))%1000 < 12 {
			if s.demoted == nil {
				s.demoted = map[string]uint64{}
			}
			s.demoted[schedUnit(t)] = uint64(len(s.demoted)) + 1
		}
		d := s.faultFor(t)
		// crash scheduled for this node at its n-th released operation?
		killNow := false
		if at, ok := s.killAt[t.node]; ok {
			key := "nodeops|" + t.node
			s.occ[key]++
			if fmt.Sprint(s.occ[key]) == at {
				killNow = true
			}
		}
		if d.Fault != "" {
			s.fired[d.Fault]++
			if strings.HasPrefix(d.Fault, "deadline_") {
				if g := jobUnit(t.label); g != "" {
					s.firedGroup["deadline@"+g]++
				}
			}
			s.firedAt = append(s.firedAt, fmt.Sprintf("%s@%s#%d", d.Fault, t.label, t.occ))
			s.lastFault = s.steps
		}
		s.logf("%s#%d f=%s k=%v", t.label, t.occ, d.Fault, killNow)
		s.mu.Unlock()
		if s.OnStep != nil {
			s.OnStep(s, t.label)
		}
		if killNow {
			// the operation itself is lost; Kill releases every other parked op of the node
			t.ch <- Decision{Killed: true}
			s.Kill(t.node)
			s.mu.Lock()
			s.fired["crash"]++
			s.firedAt = append(s.firedAt, fmt.Sprintf("crash@%s#%d", t.label, t.occ))
			s.lastFault = s.steps
			s.mu.Unlock()
			continue
		}
		t.ch <- d
	}
}

// Drain lets everything left in the bubble finish (no more faults, no parking).
func (s *Sim) Drain(settle time.Duration) {
	s.Free()
	deadline := time.Now().Add(settle)
	for time.Now().Before(deadline) {
		synctest.Wait()
		time.Sleep(time.Second)
	}
	synctest.Wait()
}
