package sim

import "github.com/streamingfast/substreams/storage/store"

// setSizeLimit sets the additional store size limit of hook H4 (0 = off).
func setSizeLimit(n uint64) { store.VerifSizeLimit = n }
