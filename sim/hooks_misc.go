package sim

func setSizeLimit(uint64) {}
