package sim

import (
	"fmt"

	orchexecout "github.com/streamingfast/substreams/orchestrator/execout"
	"github.com/streamingfast/substreams/orchestrator/loop"
	"github.com/streamingfast/substreams/orchestrator/stage"
	"github.com/streamingfast/substreams/orchestrator/work"
)

func msgLabelImpl(msg loop.Msg) string {
	switch m := msg.(type) {
	case work.MsgJobSucceeded:
		return fmt.Sprintf("JobSucceeded{st%d,seg%d}", m.Unit.Stage, m.Unit.Segment)
	case work.MsgJobFailed:
		return fmt.Sprintf("JobFailed{st%d,seg%d}", m.Unit.Stage, m.Unit.Segment)
	case work.MsgScheduleNextJob:
		return "ScheduleNextJob"
	case stage.MsgMergeFinished:
		return fmt.Sprintf("MergeFinished{st%d,seg%d}", m.Unit.Stage, m.Unit.Segment)
	case stage.MsgMergeFailed:
		return fmt.Sprintf("MergeFailed{st%d,seg%d}", m.Unit.Stage, m.Unit.Segment)
	case stage.MsgMergeNotReady:
		return fmt.Sprintf("MergeNotReady{st%d,seg%d}", m.NextUnit.Stage, m.NextUnit.Segment)
	case stage.MsgAllStoresCompleted:
		return "AllStoresCompleted"
	case orchexecout.MsgDownloadSegment:
		return fmt.Sprintf("DownloadSegment{%dms}", m.Wait.Milliseconds())
	case orchexecout.MsgFileDownloaded:
		return "FileDownloaded"
	case orchexecout.MsgFileNotPresent:
		return fmt.Sprintf("FileNotPresent{%dms}", m.NextWait.Milliseconds())
	case orchexecout.MsgWalkerCompleted:
		return "WalkerCompleted"
	case loop.BatchMsg:
		return fmt.Sprintf("Batch{%d}", len(m))
	case loop.SequenceMsg:
		return fmt.Sprintf("Sequence{%d}", len(m))
	case loop.QuitMsg:
		return "Quit"
	case nil:
		return "nil"
	}
	return fmt.Sprintf("%T", msg)
}
