package sim

// C03 — reorgs: undo restores every store; clients converge on the canonical chain.
// C11 — store size accounting exact (monitored on every store after every step).

import (
	"bytes"
	"fmt"
	"os"
	"sort"

	"github.com/streamingfast/bstream"
	"github.com/streamingfast/substreams/pipeline"
)

// GenFork builds a fork tree above base, its arrival order and finality schedule, then a
// tail that extends the best chain so that everything becomes final and the stop block is reached.
// forkNoSkippedHeights: compiled test modules assert arithmetic over contiguous block numbers (set by the
// real-wazero fork generator around its call; generation is single-threaded).
var forkNoSkippedHeights bool

func GenFork(r *Rng, base uint64, heights, maxBlocks int) (*ForkScenario, uint64) {
	f := &ForkScenario{Base: base}
	baseID := canonID(base)
	type node struct {
		b     *CBlock
		depth int
		lib   uint64
	}
	nodes := []*node{}
	byID := map[string]*node{}
	letters := "abcdefghij"
	used := map[string]bool{}
	newID := func(num uint64) string {
		for i := 0; i < len(letters); i++ {
			id := fmt.Sprintf("%d%c", num, letters[i])
			if id == canonID(num) && false {
				continue
			}
			if !used[id] {
				used[id] = true
				return id
			}
		}
		return fmt.Sprintf("%dz%d", num, len(used))
	}
	// first block extends the base
	add := func(parentID string, parentNum uint64, parentLib uint64) *node {
		num := parentNum + 1
		if r.Chance(1, 10) && !forkNoSkippedHeights {
			num++ // skipped height
		}
		lib := parentLib
		n := &node{b: &CBlock{Num: num, ID: newID(num), Parent: parentID, Lib: lib}, lib: lib}
		nodes = append(nodes, n)
		byID[n.b.ID] = n
		return n
	}
	root := add(baseID, base, base)
	tips := []*node{root}
	libID := baseID // id of the current last irreversible block (global: finality is consistent across branches)
	descends := func(n *node) bool {
		if libID == baseID {
			return true
		}
		for cur := n; cur != nil; cur = byID[cur.b.Parent] {
			if cur.b.ID == libID {
				return true
			}
		}
		return false
	}
	guard := 0
	flip := r.Chance(1, 2) // flip-flop style: extend two branches alternately
	for len(nodes) < maxBlocks {
		var parent *node
		switch {
		case flip && len(tips) >= 2:
			parent = tips[len(nodes)%2]
		case r.Chance(1, 4) && len(nodes) > 1:
			parent = nodes[r.Intn(len(nodes))] // new branch from anywhere
		default:
			parent = tips[r.Intn(len(tips))]
		}
		if !descends(parent) {
			// dead branch: finality has moved past its fork point
			alive := false
			for _, t := range tips {
				if descends(t) {
					alive = true
				}
			}
			if !alive {
				break
			}
			if guard++; guard > 200 {
				break
			}
			continue
		}
		if int(parent.b.Num-base) >= heights {
			if r.Chance(1, 2) {
				break
			}
			continue
		}
		// LIB progress: sometimes advance to an ancestor of the parent
		lib := parent.lib
		if r.Chance(1, 5) {
			// walk up 1..3 ancestors from the parent; its number becomes the LIB
			cur := parent
			up := r.Range(1, 3)
			for i := 0; i < up && cur != nil; i++ {
				cur = byID[cur.b.Parent]
			}
			if cur != nil && cur.b.Num > lib && descends(cur) {
				lib = cur.b.Num
				libID = cur.b.ID
			}
		}
		n := add(parent.b.ID, parent.b.Num, lib)
		n.b.Lib, n.lib = lib, lib
		replaced := false
		for i, t := range tips {
			if t == parent {
				tips[i] = n
				replaced = true
			}
		}
		if !replaced {
			if len(tips) < 3 {
				tips = append(tips, n)
			} else {
				tips[r.Intn(len(tips))] = n
			}
		}
		if flip && len(tips) == 1 && len(nodes) >= 2 {
			// open the second branch from the root's parent level
			sib := add(root.b.Parent, base, base)
			if root.b.Parent != baseID {
				sib.b.Num = root.b.Num
			}
			tips = append(tips, sib)
		}
	}
	// arrival order: creation order (parents first), with an occasional swap of neighbours that are not parent/child
	for _, n := range nodes {
		f.Arrival = append(f.Arrival, n.b)
	}
	for i := 0; i+1 < len(f.Arrival); i++ {
		if r.Chance(1, 8) && f.Arrival[i+1].Parent != f.Arrival[i].ID {
			f.Arrival[i], f.Arrival[i+1] = f.Arrival[i+1], f.Arrival[i]
		}
	}
	// tail: extend the highest tip (ties: the last created) until everything below is final
	var best *node
	for _, n := range nodes {
		if descends(n) && (best == nil || n.b.Num >= best.b.Num) {
			best = n
		}
	}
	if best == nil {
		best = nodes[len(nodes)-1]
	}
	top := best.b.Num
	cur := best
	for i := 0; i < 4; i++ {
		num := cur.b.Num + 1
		lib := cur.lib
		if i >= 1 {
			lib = cur.b.Num - 0 // parent becomes final
			if i == 1 {
				lib = best.b.Num
			}
		}
		n := &node{b: &CBlock{Num: num, ID: newID(num), Parent: cur.b.ID, Lib: lib}, lib: lib}
		byID[n.b.ID] = n
		f.Arrival = append(f.Arrival, n.b)
		cur = n
	}
	return f, top
}

func GenC03(seed uint64) *Scenario { return genForkScenario(seed, "C03") }

func genForkScenario(seed uint64, prop string) *Scenario {
	r := NewRng(seed, "gen", "C03")
	o := GenOpts{WantStores: r.Range(1, 2), MinMods: 2, MaxMods: 5, NoIndex: r.Chance(4, 5)}
	b := genBase(r, o, 0)
	// behaviour must depend on the block id so that sibling blocks differ: give every store a block or clock input path
	lo := max(b.gi.outInit, b.gi.lowest)
	base := lo + uint64(r.Range(1, int(3*b.seg)))
	fork, top := GenFork(r, base, r.Range(2, 6), r.Range(4, 14))
	s := &Scenario{Prop: prop, Seed: seed, Family: "forks", Pkg: b.pkg, Head: base, Fork: fork}
	genPolicy(r, s)
	q := ReqSpec{Output: b.pkg.Output, SegSize: b.seg, Workers: uint64(r.Range(1, 3)), Prod: r.Chance(1, 2)}
	start := lo + uint64(r.Intn(int(base-lo)+1))
	if r.Chance(1, 3) {
		start = base // undo right after the hand-off
	} else if r.Chance(1, 4) && top > base+1 {
		// the start block lies inside the fork region: reversible blocks below it are executed with the gate closed
		start = base + 1 + uint64(r.Intn(int(top-base-1)+1))
	}
	q.Start = int64(start)
	q.Stop = top + 2
	q.Final = base
	if !q.Prod && r.Chance(1, 3) && start <= base {
		q.Final = 0
	}
	s.History = []HistItem{{Req: q}}
	return s
}

type forkObs struct {
	steps []forkStep
}

type forkStep struct {
	blk    *CBlock
	step   bstream.StepType
	err    error
	stores map[string]StoreState
}

func (o *forkObs) AfterStep(pipe *pipeline.Pipeline, blk *CBlock, step bstream.StepType, err error) {
	if os.Getenv("SIM_DUMPMSGS") == "1" {
		fmt.Printf("STEP %s %s err=%v\n", step, blk.ID, err)
	}
	o.steps = append(o.steps, forkStep{blk: blk, step: step, err: err, stores: snapshotStores(pipe)})
}

type c03Checker struct {
	prop string // C03 or C11
	obs  *forkObs
}

func (c *c03Checker) Setup(x *Exec) *Violation {
	c.obs = &forkObs{}
	x.Env.T1Obs = c.obs
	return nil
}

func (c *c03Checker) AfterRequest(x *Exec, idx int, h *HistItem, res *RunResult) *Violation {
	prop := c.prop
	pkg := x.S.Pkg
	if v := checkCompleted(prop, h, res); v != nil {
		return v
	}
	ref, err := x.Ref(pkg, h.Req.Output, h.Req.SegSize)
	if err != nil {
		x.Rep.Infra = "reference run failed: " + err.Error()
		return nil
	}
	if ref.FailedAt != nil && x.S.Pkg.Spkg != "" {
		// a compiled test module that fails on the canonical chain itself (test_map with its default params)
		x.Probe("reference_fails_deterministically")
		return nil
	}
	if res.HasErr {
		return viol(prop, "unexpected_error", "fork scenario request failed: code=%s err=%v", codeName(res.Code), res.Err)
	}
	f := x.S.Fork
	parent := map[string]string{}
	for _, b := range f.Arrival {
		parent[b.ID] = b.Parent
	}
	// --- store content and size after every delivered step ---
	head := "" // id of the current head as the pipeline sees it
	undone := map[string]int{}
	for i, st := range c.obs.steps {
		if st.err != nil {
			continue
		}
		switch {
		case st.step.Matches(bstream.StepNew):
			head = st.blk.ID
		case st.step.Matches(bstream.StepUndo):
			undone[st.blk.ID]++
			if undone[st.blk.ID] >= 2 {
				x.Probe("block_undone_twice")
			}
			if p, ok := parent[st.blk.ID]; ok {
				head = p
			} else {
				head = canonID(st.blk.Num - 1)
			}
			for _, d := range refDeltas(ref, st.blk.ID) {
				if d.Op == 3 {
					x.Probe("undone_block_had_delete_delta")
				}
			}
		default:
			continue // final / stalled: no state change
		}
		if st.blk.Num < ref.Lowest {
			continue
		}
		rb := ref.ByID[head]
		if rb == nil {
			continue
		}
		if prop == "C03" || prop == "C11" {
			if d := SizeExact(st.stores); d != "" {
				cls := "size_drift"
				return viol(prop, cls, "after step %d (%s of block %s): %s", i, st.step, st.blk.ID, d)
			}
		}
		if prop == "C03" {
			if d := CompareStores(pkg, st.stores, rb.Stores, nil); d != "" {
				return viol(prop, "store_after_reorg", "after step %d (%s of block %s, head %s): stores differ from executing only the canonical chain: %s", i, st.step, st.blk.ID, head, d)
			}
		}
	}
	if prop != "C03" {
		x.Rep.NonTrivial = x.Rep.NonTrivial || len(undone) > 0
		return nil
	}
	// --- client convergence ---
	type held struct {
		num     uint64
		id      string
		payload []byte
	}
	var client []held
	heights := map[uint64]string{}
	undos := 0
	firstNum := uint64(0)
	haveFirst := false
	for _, m := range res.Msgs {
		switch m.Kind {
		case "data":
			if !haveFirst {
				firstNum, haveFirst = m.Num, true
			}
			if m.Num < uint64(h.Req.Start) {
				// After a reorg whose junction lies below the start block the engine sends the new branch from the
				// junction on, blocks below the requested start included (once open, the gate stays open). That is
				// the contract of the undo signal - "last valid block = junction", then everything above it - and
				// a client that resumed by cursor depends on it; it is counted, not flagged.
				x.Probe("data_below_start_after_deep_reorg")
			}
			if prev, ok := heights[m.Num]; ok && prev != m.ID {
				return viol(prop, "two_blocks_same_height", "client received block %s at height %d while still holding %s (no undo in between)", m.ID, m.Num, prev)
			}
			if len(client) > 0 && client[len(client)-1].num >= m.Num {
				return viol(prop, "non_increasing_without_undo", "client received block %d (%s) after block %d without an undo", m.Num, m.ID, client[len(client)-1].num)
			}
			client = append(client, held{m.Num, m.ID, m.Payload})
			heights[m.Num] = m.ID
		case "undo":
			undos++
			okTarget := false
			for _, c := range client {
				if c.num == m.UndoNum && c.id == m.UndoID {
					okTarget = true
				}
			}
			if !okTarget && haveFirst && m.UndoNum < firstNum {
				// a block before the client's first one. The statement says "the one before its first"; when the
				// start block lies inside the fork region the junction can be further below, which is harmless
				// (the client drops everything it holds) and is accepted.
				okTarget = true
			}
			if !okTarget && !haveFirst {
				okTarget = true
			}
			if !okTarget {
				return viol(prop, "undo_target_unknown", "undo signal designates block %d (%s) which the client does not hold", m.UndoNum, m.UndoID)
			}
			for len(client) > 0 && client[len(client)-1].num > m.UndoNum {
				delete(heights, client[len(client)-1].num)
				client = client[:len(client)-1]
			}
		}
	}
	for _, c := range client {
		rb := ref.ByID[c.id]
		if rb == nil {
			rb = ref.Canon[c.num]
		}
		if rb == nil {
			return viol(prop, "client_holds_unknown_block", "client ends with block %d (%s) which no chain contains", c.num, c.id)
		}
		if !bytes.Equal(c.payload, rb.Out) {
			return viol(prop, "client_payload_mismatch", "client ends with block %s payload %q, executing only the canonical chain gives %q", c.id, c.payload, rb.Out)
		}
	}
	// the client's final chain must be linked: each block's parent is the previous one held (fork part)
	for i := 1; i < len(client); i++ {
		if p, ok := parent[client[i].id]; ok && client[i-1].num >= f.Base {
			if p != client[i-1].id {
				return viol(prop, "client_chain_not_linked", "client holds %s whose parent is %s but the previous block held is %s", client[i].id, p, client[i-1].id)
			}
		}
	}
	// completeness against the engine's own final view: every block of the final canonical chain in range is held
	final := map[uint64]string{}
	cur := head
	for cur != "" {
		var num uint64
		fmt.Sscanf(cur, "%d", &num)
		final[num] = cur
		p, ok := parent[cur]
		if !ok {
			break
		}
		cur = p
	}
	nums := make([]int, 0, len(final))
	for n := range final {
		nums = append(nums, int(n))
	}
	sort.Ints(nums)
	for _, n := range nums {
		num := uint64(n)
		if num < uint64(h.Req.Start) || num >= h.Req.Stop {
			continue
		}
		if id, ok := heights[num]; !ok || id != final[num] {
			return viol(prop, "client_missing_canonical_block", "client does not hold canonical block %s (holds %q at that height)", final[num], heights[num])
		}
	}
	if undos > 0 {
		x.Probe("undo_signals")
	}
	x.Rep.NonTrivial = x.Rep.NonTrivial || undos > 0
	return nil
}

func refDeltas(ref *Ref, id string) []Delta {
	rb := ref.ByID[id]
	if rb == nil {
		return nil
	}
	var out []Delta
	for _, ds := range rb.Deltas {
		out = append(out, ds...)
	}
	return out
}

func (c *c03Checker) Finish(x *Exec) *Violation { return nil }
