package sim

// Entry point of the simulator binary (go test -c). Driven by environment:
//   SIM_PROP    property id (C01 ...)
//   SIM_SEEDS   "a-b" run seeds (inclusive) or a comma list
//   SIM_REPLAY  path of a replay file (overrides SIM_SEEDS)
//   SIM_OUT     path for JSON-lines run reports (default stdout)
//   SIM_KEEPLOG "1" to include event logs in reports
// One report per line; the driver (/verif/check) aggregates, minimises and writes evidence.

import (
	"bufio"
	"encoding/json"
	"fmt"
	"os"
	"strconv"
	"strings"
	"testing"
	"time"
)

type propDef struct {
	gen func(seed uint64) *Scenario
	chk func() Checker
}

var props = map[string]propDef{}

var wazeroProps = map[string]bool{"C01": true, "C05": true, "C07": true, "C16": true, "C03": true, "C11": true}

func init() {
	props["C01"] = propDef{gen: GenC01, chk: func() Checker { return &stratChecker{prop: "C01", fileInv: true} }}
	props["C03"] = propDef{gen: GenC03, chk: func() Checker { return &c03Checker{prop: "C03"} }}
	props["C04"] = propDef{gen: GenC04, chk: func() Checker { return &c04Checker{} }}
	props["C05"] = propDef{gen: GenC05, chk: func() Checker { return &stratChecker{prop: "C05", fileInv: true, monitors: true} }}
	props["C07"] = propDef{gen: GenC07, chk: func() Checker { return &stratChecker{prop: "C07", fileInv: true} }}
	props["C10"] = propDef{gen: GenC10, chk: func() Checker { return &c10Checker{} }}
	props["C11"] = propDef{gen: GenC11, chk: func() Checker { return &c11Checker{} }}
	props["C15"] = propDef{gen: GenC15, chk: func() Checker { return &c15Checker{} }}
	props["C16"] = propDef{gen: GenC16, chk: func() Checker { return &stratChecker{prop: "C16", fileInv: true} }}
}

func parseSeeds(spec string) []uint64 {
	var out []uint64
	for _, part := range strings.Split(spec, ",") {
		part = strings.TrimSpace(part)
		if part == "" {
			continue
		}
		if i := strings.IndexByte(part, '-'); i > 0 {
			a, _ := strconv.ParseUint(part[:i], 10, 64)
			b, _ := strconv.ParseUint(part[i+1:], 10, 64)
			for s := a; s <= b; s++ {
				out = append(out, s)
			}
			continue
		}
		a, _ := strconv.ParseUint(part, 10, 64)
		out = append(out, a)
	}
	return out
}

func runOne(t *testing.T, prop string, s *Scenario, keepLog bool) *RunReport {
	pd, ok := props[prop]
	if !ok {
		return &RunReport{Prop: prop, Infra: "unknown property " + prop}
	}
	rep := RunScenario(t, s, pd.chk(), true)
	rep.Shape = shapeOf(s)
	rep.SchedFP = schedFingerprint(rep.Log)
	if rep.Violation != nil || keepLog {
		rep.Summary = s.Summary()
	}
	if rep.Violation == nil && !keepLog {
		rep.Log = nil
	}
	return rep
}

func TestSim(t *testing.T) {
	prop := os.Getenv("SIM_PROP")
	if prop == "" {
		t.Skip("SIM_PROP not set")
	}
	out := os.Stdout
	if p := os.Getenv("SIM_OUT"); p != "" {
		f, err := os.Create(p)
		if err != nil {
			t.Fatal(err)
		}
		defer f.Close()
		out = f
	}
	w := bufio.NewWriter(out)
	defer w.Flush()
	keep := os.Getenv("SIM_KEEPLOG") == "1"
	emit := func(rep *RunReport) {
		b, _ := json.Marshal(rep)
		w.Write(b)
		w.WriteByte('\n')
		w.Flush()
	}
	if rp := os.Getenv("SIM_REPLAY"); rp != "" {
		data, err := os.ReadFile(rp)
		if err != nil {
			t.Fatal(err)
		}
		var s Scenario
		if err := json.Unmarshal(data, &s); err != nil {
			t.Fatal(err)
		}
		emit(runOne(t, s.Prop, &s, keep))
		return
	}
	pd, ok := props[prop]
	if !ok {
		t.Fatalf("unknown property %s", prop)
	}
	deadline := time.Time{}
	if d := os.Getenv("SIM_WALL_S"); d != "" {
		n, _ := strconv.Atoi(d)
		deadline = time.Now().Add(time.Duration(n) * time.Second)
	}
	nviol := 0
	for _, seed := range parseSeeds(os.Getenv("SIM_SEEDS")) {
		if !deadline.IsZero() && time.Now().After(deadline) {
			break
		}
		var s *Scenario
		wazeroPm, _ := strconv.Atoi(os.Getenv("SIM_WAZERO_PM"))
		func() {
			defer func() {
				if r := recover(); r != nil {
					emit(&RunReport{Seed: seed, Prop: prop, Infra: fmt.Sprintf("generator panic: %v", r)})
					s = nil
				}
			}()
			if wazeroPm > 0 && int(H(seed, "wazero?")%1000) < wazeroPm && wazeroProps[prop] {
				s = GenWazero(seed, prop)
				return
			}
			s = pd.gen(seed)
		}()
		if s == nil {
			continue
		}
		rep := runOne(t, prop, s, keep)
		if rep.Violation != nil {
			rep.Summary = s.Summary()
			min := s
			nrep := 0
			nviol++
			if os.Getenv("SIM_NOMIN") != "1" && nviol <= 3 { // minimise the first few violations of a worker only
				func() {
					// a violation is never lost to trouble in the minimiser: fall back to the original scenario
					defer func() {
						if r := recover(); r != nil {
							fmt.Fprintf(os.Stderr, "minimiser panic on seed %d: %v\n", seed, r)
							min, nrep = s, 0
						}
					}()
					min, nrep = Minimise(t, s, rep.Violation.Class, pd.chk, 300)
				}()
			}
			mrep := runOne(t, prop, min, true)
			if mrep.Violation == nil || mrep.Violation.Class != rep.Violation.Class {
				min, mrep = s, rep
			}
			min.Expect = mrep.Violation.Class
			b, _ := json.Marshal(struct {
				*RunReport
				Scenario   *Scenario `json:"scenario"`
				Features   []string  `json:"features"`
				MinReplays int       `json:"min_replays"`
				OrigSteps  int       `json:"orig_steps"`
			}{mrep, min, Features(min, mrep.Violation), nrep, rep.Steps})
			w.Write(b)
			w.WriteByte('\n')
			w.Flush()
			continue
		}
		emit(rep)
	}
}
