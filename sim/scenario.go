package sim

// Scenario: the fully expanded, JSON-serialisable description of one simulated
// run (package, chain, history of requests, schedule policy, fault plan). Running
// a scenario is a pure function of this value and the code under test.

import (
	"encoding/json"
	"fmt"
	"os"
	"regexp"
	"sort"
	"strings"
	"testing"
	"testing/synctest"
	"time"

	"connectrpc.com/connect"
	"github.com/streamingfast/bstream"
	"github.com/streamingfast/substreams/pipeline/exec"
)

type HistItem struct {
	Req    ReqSpec  `json:"req"`
	Pkg    *PkgDef  `json:"pkg,omitempty"` // package variant (nil = scenario package)
	Evict  []string `json:"evict,omitempty"`
	EvictN int      `json:"evict_n,omitempty"` // evict by hash: permille of objects
	// DropOutputs: every .output file is deleted after this request (never removed by the minimiser)
	DropOutputs bool `json:"drop_outputs,omitempty"`
	EvictK string   `json:"evict_kind,omitempty"`
	// resumption (C04): start from the cursor of the ResumeK-th eligible (final-block) data message of request ResumeOf (1-based)
	ResumeOf int  `json:"resume_of,omitempty"`
	ResumeK  int  `json:"resume_k,omitempty"`
	Fresh    bool `json:"fresh_disk,omitempty"` // run on an empty object store
}

type Scenario struct {
	Prop      string            `json:"prop"`
	Seed      uint64            `json:"seed"`
	Family    string            `json:"family"`
	Pkg       *PkgDef           `json:"pkg"`
	First     uint64            `json:"first"`
	Head      uint64            `json:"head"`
	ConfDepth uint64            `json:"conf_depth"`
	Fork      *ForkScenario     `json:"fork,omitempty"`
	History   []HistItem        `json:"history"` // the last item is the request under test
	Policy    Policy            `json:"policy"`
	StallPm   int               `json:"stall_pm"`
	Rates     map[string]int    `json:"rates,omitempty"`
	MaxF      map[string]int    `json:"maxf,omitempty"`
	NthF      map[string]int    `json:"nthf,omitempty"` // kind -> fire at the n-th eligible site (placement sweeps)
	Forced    map[string]string `json:"forced,omitempty"`
	Off       map[string]bool   `json:"off,omitempty"`
	NTier2    int               `json:"ntier2"`
	T2Max     uint64            `json:"t2max"`
	Scheme    string            `json:"scheme"`
	SizeLimit uint64            `json:"size_limit,omitempty"`
	Ghost     int               `json:"ghost_pm,omitempty"` // permille per scheduler step: a file of a clean run of the last request appears (concurrent request)
	Expect    string            `json:"expect,omitempty"`   // violation class expected by a replay file
}

func (s *Scenario) JSON() []byte {
	b, _ := json.MarshalIndent(s, "", " ")
	return b
}

func (s *Scenario) Clone() *Scenario {
	var c Scenario
	if err := json.Unmarshal(s.JSON(), &c); err != nil {
		panic(err)
	}
	return &c
}

func (s *Scenario) Chain() *Chain {
	c := NewLinearChain(s.First, s.Head)
	if s.ConfDepth > 0 {
		c.ConfDepth = s.ConfDepth
	}
	c.Fork = s.Fork
	return c
}

func (s *Scenario) Summary() map[string]any {
	var reqs []string
	for _, h := range s.History {
		m := "dev"
		if h.Req.Prod {
			m = "prod"
		}
		x := fmt.Sprintf("%s[%d,%d) out=%s final=%d seg=%d w=%d", m, h.Req.Start, h.Req.Stop, h.Req.Output, h.Req.Final, h.Req.SegSize, h.Req.Workers)
		if h.Req.CrashAtOp > 0 {
			x += fmt.Sprintf(" crash@op%d", h.Req.CrashAtOp)
		}
		if h.Req.DisconnectAt > 0 {
			x += fmt.Sprintf(" disconnect@%d", h.Req.DisconnectAt)
		}
		if h.EvictN > 0 || len(h.Evict) > 0 {
			x += fmt.Sprintf(" evict(%s,%d)", h.EvictK, h.EvictN)
		}
		if h.Pkg != nil {
			x += " variant-pkg"
		}
		reqs = append(reqs, x)
	}
	return map[string]any{
		"seed": s.Seed, "family": s.Family, "pkg": s.Pkg.Summary(), "head": s.Head, "requests": reqs,
		"policy": s.Policy.String(), "stall_pm": s.StallPm, "rates": s.Rates, "ntier2": s.NTier2, "t2max": s.T2Max, "fork": s.Fork != nil,
	}
}

// RunReport is what one simulated scenario produced.
type RunReport struct {
	Seed       uint64         `json:"seed"`
	Prop       string         `json:"prop"`
	Family     string         `json:"family"`
	Violation  *Violation     `json:"violation,omitempty"`
	Infra      string         `json:"infra,omitempty"` // harness trouble (exit 2), never a violation
	LogHash    string         `json:"log_hash"`
	Steps      int            `json:"steps"`
	Choice     int            `json:"choice_points"`
	VirtualS   float64        `json:"virtual_s"`
	WallMs     float64        `json:"wall_ms"`
	Fired      map[string]int `json:"fired,omitempty"`
	FiredAt    []string       `json:"fired_at,omitempty"`
	Probes     map[string]int `json:"probes,omitempty"`
	Requests   int            `json:"requests"`
	NonTrivial bool           `json:"nontrivial"`
	Shape      string         `json:"shape"`
	SchedFP    string         `json:"sched_fp"`
	States     []string       `json:"states,omitempty"`
	OrderPairs []string       `json:"order_pairs,omitempty"` // "A<B": a loop message of class A was delivered before one of class B
	Summary    map[string]any `json:"summary,omitempty"`
	Log        []string       `json:"log,omitempty"`
}

// Checker is the per-property oracle invoked by RunScenario.
type Checker interface {
	// Setup is called inside the bubble before the first request.
	Setup(x *Exec) *Violation
	// AfterRequest is called after every history item (idx) with its result.
	AfterRequest(x *Exec, idx int, h *HistItem, res *RunResult) *Violation
	// Finish is called after the last request.
	Finish(x *Exec) *Violation
}

// Exec is the execution context of one scenario.
type Exec struct {
	S           *Scenario
	Sim         *Sim
	Env         *Env
	Disk        *Disk
	Chain       *Chain
	refs        map[string]*Ref
	Results     []*RunResult
	ResumedFrom map[int]Msg // history index -> message whose cursor was used
	Rep         *RunReport
	Probes      map[string]int
}

func (x *Exec) Probe(name string) { x.Probes[name]++ }

func (x *Exec) Ref(pkg *PkgDef, output string, seg uint64) (*Ref, error) {
	key := fmt.Sprintf("%p/%s", pkg, output)
	if r, ok := x.refs[key]; ok {
		return r, nil
	}
	r, err := BuildRef(pkg, output, x.Chain, seg)
	if err != nil {
		return nil, err
	}
	x.refs[key] = r
	return r, nil
}

func evictMatch(kind, key string) bool {
	switch kind {
	case "", "any":
		return true
	case "full":
		return strings.HasSuffix(key, ".kv")
	case "partial":
		return strings.HasSuffix(key, ".partial")
	case "output":
		return strings.HasSuffix(key, ".output")
	case "index":
		return strings.HasSuffix(key, ".index")
	case "states":
		return strings.Contains(key, "/states/")
	case "notfull":
		return !strings.HasSuffix(key, ".kv")
	case "notoutput":
		return !strings.HasSuffix(key, ".output")
	}
	return true
}

func (x *Exec) evict(idx int, h *HistItem) int {
	n := 0
	for _, k := range x.Disk.Keys() {
		drop := false
		for _, pat := range h.Evict {
			if strings.Contains(k, pat) {
				drop = true
			}
		}
		if h.EvictN > 0 && evictMatch(h.EvictK, k) && int(H(x.S.Seed, "evict", fmt.Sprint(idx), k)%1000) < h.EvictN {
			drop = true
		}
		if h.DropOutputs && strings.HasSuffix(k, ".output") {
			drop = true
		}
		if drop {
			x.Disk.Delete(k)
			n++
		}
	}
	return n
}

// RunScenario executes s inside a synctest bubble. It never panics: harness trouble is reported as Infra.
func RunScenario(t *testing.T, s *Scenario, chk Checker, keepLog bool) (rep *RunReport) {
	rep = &RunReport{Seed: s.Seed, Prop: s.Prop, Family: s.Family, Probes: map[string]int{}}
	wall0 := time.Now()
	defer func() {
		rep.WallMs = float64(time.Since(wall0).Microseconds()) / 1000
		if r := recover(); r != nil {
			msg := fmt.Sprint(r)
			if strings.Contains(msg, "deadlock") && (rep.Violation != nil || rep.Infra == "" && rep.Steps > 0) {
				// end-of-bubble: goroutines blocked forever after the main goroutine returned (leak, diagnostic only)
				rep.Probes["leaked_goroutines_at_bubble_end"]++
				return
			}
			rep.Infra = "panic in harness: " + msg
		}
	}()
	synctest.Test(t, func(t *testing.T) {
		sim := NewSim(s.Seed, s.Policy)
		sim.StallPermille = s.StallPm
		sim.keepText = keepLog
		sim.Faults = FaultPlan{Rate: s.Rates, Max: s.MaxF, Nth: s.NthF, Forced: s.Forced, Off: s.Off}
		disk := NewDisk()
		if s.Scheme != "" {
			disk.Scheme = s.Scheme
		}
		chain := s.Chain()
		bstream.GetProtocolFirstStreamableBlock = s.First
		os.Setenv("SUBSTREAMS_WASM_RUNTIME", runtimeFor(s.Pkg))
		defer os.Setenv("SUBSTREAMS_WASM_RUNTIME", SimVMName)
		nt2 := s.NTier2
		if nt2 == 0 {
			nt2 = 1
		}
		env := NewEnv(sim, disk, chain, nt2, s.T2Max)
		x := &Exec{S: s, Sim: sim, Env: env, Disk: disk, Chain: chain, refs: map[string]*Ref{}, Rep: rep, Probes: rep.Probes}
		setSizeLimit(s.SizeLimit)
		defer setSizeLimit(0)
		finish := func() {
			curEnv = env
			env.Settle()
			rep.Steps = sim.Steps()
			rep.Choice = sim.ChoicePoints()
			rep.VirtualS = sim.VirtualElapsed().Seconds()
			rep.LogHash = fmt.Sprintf("%016x", sim.LogHash())
			rep.Fired = sim.Fired()
			rep.FiredAt = sim.FiredAt()
			for k, v := range env.Probes {
				rep.Probes[k] += v
			}
			rep.OrderPairs = orderPairs(sim.LogText())
			if keepLog {
				rep.Log = sim.LogText()
				if os.Getenv("SIM_NAMES") == "1" {
					names := map[string]string{}
					for _, h := range s.History {
						if g, err := exec.NewOutputModuleGraph(h.Req.Output, true, s.Pkg.Modules(), s.First); err == nil {
							for _, m := range g.UsedModules() {
								names[g.ModuleHashes().Get(m.Name)] = m.Name
							}
						}
					}
					for i, l := range rep.Log {
						for hsh, n := range names {
							l = strings.ReplaceAll(l, hsh, n)
						}
						rep.Log[i] = l
					}
				}
			}
			if os.Getenv("SIM_DUMPDISK") == "1" {
				names := map[string]string{}
				if g, err := exec.NewOutputModuleGraph(s.Pkg.Output, true, s.Pkg.Modules(), s.First); err == nil {
					for _, m := range g.UsedModules() {
						names[g.ModuleHashes().Get(m.Name)] = m.Name
					}
				}
				fmt.Println(DumpDisk(disk, names))
			}
			if ps := env.Panics(); len(ps) > 0 && rep.Violation == nil {
				rep.Violation = viol(s.Prop, "panic", "%s", ps[0])
			}
		}
		defer finish()
		if v := chk.Setup(x); v != nil {
			rep.Violation = v
			return
		}
		for i := range s.History {
			h := &s.History[i]
			pkg := s.Pkg
			if h.Pkg != nil {
				pkg = h.Pkg
			}
			if h.ResumeOf > 0 && h.ResumeOf <= len(x.Results) {
				prev := x.Results[h.ResumeOf-1]
				var elig []Msg
				for _, m := range prev.Data() {
					if cur, err := bstream.CursorFromOpaque(m.Cursor); err == nil && cur.IsOnFinalBlock() && (h.Req.Stop == 0 || m.Num+1 < h.Req.Stop) {
						elig = append(elig, m)
					}
				}
				if len(elig) == 0 {
					x.Probes["resume_no_eligible_cursor"]++
					x.Results = append(x.Results, &RunResult{})
					continue
				}
				m := elig[h.ResumeK%len(elig)]
				h.Req.Cursor = m.Cursor
				if h.ResumeK%2 == 0 {
					h.Req.Start = 0 // otherwise the client re-sends its original start block along with the cursor
				}
				if x.ResumedFrom == nil {
					x.ResumedFrom = map[int]Msg{}
				}
				x.ResumedFrom[i] = m
			}
			if h.Fresh {
				disk.Restore(map[string][]byte{})
			}
			if s.Ghost > 0 && i == len(s.History)-1 {
				// files of a concurrent request over the same modules appear while this one runs: they are taken from a
				// clean run of the same request on its own store and copied in one at a time at scheduler steps
				cleanSim := NewSim(s.Seed^0x9e3779b9, PolicyCanonical)
				cleanDisk := NewDisk()
				cleanEnv := NewEnv(cleanSim, cleanDisk, chain, 1, 0)
				creq := h.Req
				creq.CrashAtOp, creq.DisconnectAt = 0, 0
				cres := cleanEnv.RunRequest(pkg, &creq, nil)
				if cres.Outcome != OutDone {
					cleanSim.Kill(cres.Node)
				}
				cleanEnv.Settle()
				curEnv = env
				ghost := cleanDisk.Snapshot()
				gkeys := make([]string, 0, len(ghost))
				for k := range ghost {
					if !strings.HasSuffix(k, ".spkg") {
						gkeys = append(gkeys, k)
					}
				}
				sort.Strings(gkeys)
				prev := sim.OnStep
				sim.OnStep = func(ss *Sim, label string) {
					if prev != nil {
						prev(ss, label)
					}
					if len(gkeys) == 0 || int(H(s.Seed, "ghost", fmt.Sprint(ss.Steps()))%1000) >= s.Ghost {
						return
					}
					k := gkeys[int(H(s.Seed, "ghostk", fmt.Sprint(ss.Steps()))%uint64(len(gkeys)))]
					if _, present := disk.Get(k); !present {
						disk.Put(k, ghost[k])
						x.Probes["file_appeared_during_request"]++
					}
				}
			}
			probeLeftovers(x, h)
			res := env.RunRequest(pkg, &h.Req, nil)
			x.Results = append(x.Results, res)
			dumpMsgs(res)
			rep.Requests++
			if res.Outcome != OutDone {
				// hang or step budget: kill the node so that the bubble can end
				sim.Kill(res.Node)
			}
			if v := chk.AfterRequest(x, i, h, res); v != nil {
				v.ReqIdx = i
				rep.Violation = v
				return
			}
			if n := x.evict(i, h); n > 0 {
				x.Probes["evicted_objects"] += n
			}
		}
		if v := chk.Finish(x); v != nil {
			rep.Violation = v
		}
	})
	return rep
}

// schedule fingerprint: order of loop messages and net events in the log
func schedFingerprint(log []string) string {
	h := uint64(0)
	for _, l := range log {
		if strings.Contains(l, "loop|send|") || strings.Contains(l, "net|") {
			// drop step number
			if i := strings.IndexByte(l, ' '); i > 0 {
				l = l[i+1:]
			}
			h = H(h, l)
		}
	}
	return fmt.Sprintf("%016x", h)
}

func isInvalidArgument(res *RunResult) bool {
	return res.HasErr && res.Code == connect.CodeInvalidArgument
}

func sortStrings(s []string) []string { sort.Strings(s); return s }

func dumpMsgs(res *RunResult) {
	if os.Getenv("SIM_DUMPMSGS") != "1" {
		return
	}
	for _, m := range res.Msgs {
		switch m.Kind {
		case "data":
			fmt.Printf("MSG data %d %s payload=%q finalH=%d after=%v\n", m.Num, m.ID, m.Payload, m.FinalH, m.AfterErr)
		case "undo":
			fmt.Printf("MSG undo lastvalid=%d %s\n", m.UndoNum, m.UndoID)
		default:
			fmt.Printf("MSG %s\n", m.Kind)
		}
	}
	fmt.Printf("RESULT err=%v outcome=%v\n", res.Err, res.Outcome)
}

var segRe = regexp.MustCompile(`seg[0-9]+`)
var msRe = regexp.MustCompile(`\{[0-9]+ms\}`)

// orderPairs lists, for the loop messages of a run, which message classes were delivered before which.
func orderPairs(log []string) []string {
	first := map[string]int{}
	last := map[string]int{}
	n := 0
	for _, l := range log {
		i := strings.Index(l, "loop|send|")
		if i < 0 {
			continue
		}
		c := l[i+len("loop|send|"):]
		if j := strings.IndexByte(c, '#'); j > 0 {
			c = c[:j]
		}
		c = segRe.ReplaceAllString(c, "seg")
		c = msRe.ReplaceAllString(c, "{}")
		n++
		if _, ok := first[c]; !ok {
			first[c] = n
		}
		last[c] = n
	}
	var out []string
	for a := range first {
		for b := range first {
			if a != b && first[a] < last[b] {
				out = append(out, a+"<"+b)
			}
		}
	}
	sort.Strings(out)
	return out
}

// probeLeftovers counts what kind of leftovers a request starts on (reach measurement only).
func probeLeftovers(x *Exec, h *HistItem) {
	seg := h.Req.SegSize
	if seg == 0 {
		return
	}
	for _, k := range x.Disk.Keys() {
		if !strings.HasSuffix(k, ".partial") {
			continue
		}
		base := k[strings.LastIndex(k, "/")+1:]
		var end, start uint64
		if _, err := fmt.Sscanf(base, "%d-%d.partial", &end, &start); err != nil {
			continue
		}
		x.Probes["partial_left_before_request"]++
		if end%seg != 0 {
			x.Probes["offboundary_partial_left_before_request"]++
		}
	}
}
