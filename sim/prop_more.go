package sim

// Scenario families for C05 (scheduler), C07 (cache subsets / crash), C16 (worker failures),
// C15 (block index), C04 (delivery / resumption). They share stratChecker.

import (
	"fmt"
	"strings"
	"sync"

	pbindex "github.com/streamingfast/substreams/pb/sf/substreams/index/v1"
	"google.golang.org/protobuf/proto"

	"github.com/streamingfast/bstream"
)

// genDeepReq makes a request that needs nseg segments of back-fill.
func genDeepReq(r *Rng, b *baseGen, output string, first uint64, minSeg, maxSeg int) ReqSpec {
	gi, err := inspectGraph(b.pkg, output, true)
	if err != nil {
		gi, output = b.gi, b.pkg.Output
	}
	lo := max(gi.outInit, gi.lowest, first)
	q := ReqSpec{Output: output, SegSize: b.seg, Workers: uint64(r.Range(1, 4)), Prod: r.Chance(3, 5)}
	if deepMode && r.Chance(1, 3) {
		maxSeg = maxSeg*2 + 2
		q.Workers = uint64(r.Range(1, 6))
	}
	nseg := uint64(r.Range(minSeg, maxSeg))
	base := gi.lowest - gi.lowest%b.seg
	start := base + nseg*b.seg + uint64(r.Intn(int(b.seg)))
	if r.Chance(1, 4) {
		start = base + nseg*b.seg
	}
	if start < lo {
		start = lo
	}
	q.Start = int64(start)
	q.Stop = start + 1 + uint64(r.Intn(int(2*b.seg)))
	if q.Prod {
		// most of the range final so that everything is back-filled
		switch r.Intn(4) {
		case 0:
			q.Final = 0
		case 1:
			q.Final = q.Stop + uint64(r.Intn(int(b.seg)))
		case 2:
			q.Final = q.Stop - 1 - uint64(r.Intn(int(min(q.Stop-start, b.seg))))
		default:
			q.Final = start + uint64(r.Intn(int(q.Stop-start)+1))
		}
		if r.Chance(1, 6) {
			q.Start = int64(lo) // whole range: mapper output needed from the first segment
			if uint64(q.Start) >= q.Stop {
				q.Stop = uint64(q.Start) + 2
			}
		}
	} else {
		q.Final = q.Stop + uint64(r.Intn(int(2*b.seg)))
		if r.Chance(1, 5) {
			q.Final = 0
		}
		if r.Chance(1, 3) {
			q.DebugSnap = gi.stores
		}
	}
	return q
}

func GenC05(seed uint64) *Scenario {
	r := NewRng(seed, "gen", "C05")
	b := genBase(r, GenOpts{WantStores: r.Range(1, 3), MinMods: 3, MaxMods: 7, NoIndex: r.Chance(3, 4)}, 0)
	s := &Scenario{Prop: "C05", Seed: seed, Family: "scheduler", Pkg: b.pkg, Head: b.head, ConfDepth: uint64(r.Range(1, 4))}
	genPolicy(r, s)
	if s.Policy == PolicyCanonical && r.Chance(2, 3) {
		s.Policy = PolicyHashed
	}
	nh := r.Range(0, 2)
	for i := 0; i <= nh; i++ {
		h := HistItem{Req: genDeepReq(r, b, b.pkg.Output, 0, 2, 8)}
		if i < nh {
			if r.Chance(1, 3) {
				h.Req.CrashAtOp = r.Range(3, 120)
			}
			if r.Chance(1, 3) {
				h.EvictN = []int{100, 300, 600}[r.Intn(3)]
				h.EvictK = []string{"any", "full", "partial", "output", "notfull", "states"}[r.Intn(6)]
			}
		}
		s.History = append(s.History, h)
	}
	fixHead(s)
	return s
}

// sweepBase: consecutive run seeds share one base scenario and walk a position k over it, so that a batch of
// seeds covers EVERY crash point / fault placement / failing block of that base scenario (the quantifiers say
// "all crash points", "all placements", "every block"); one base in eight is swept.
func sweepBase(seed uint64, width int, what string) (base uint64, k int, ok bool) {
	base = seed / uint64(width)
	if H(base, "sweep?", what)%8 != 0 {
		return 0, 0, false
	}
	return base, int(seed % uint64(width)), true
}

// genC07CrashSweep: one complete scenario (package, request, schedule policy) whose first request is killed at
// its k-th operation, k = 1..64 one by one and then in steps of four up to 192, followed by the same request on
// whatever survived.
func genC07CrashSweep(seed, base uint64, k int) *Scenario {
	r := NewRng(base, "gen", "C07sweep")
	b := genBase(r, GenOpts{WantStores: r.Range(1, 2), MinMods: 3, MaxMods: 6}, 0)
	s := &Scenario{Prop: "C07", Seed: seed, Family: "crash_sweep", Pkg: b.pkg, Head: b.head, ConfDepth: uint64(r.Range(1, 4))}
	genPolicy(r, s)
	q := genDeepReq(r, b, b.pkg.Output, 0, 1, 4)
	q.DebugSnap = nil
	first := HistItem{Req: q}
	op := k + 1
	if k >= 64 {
		op = 64 + (k-63)*4
	}
	first.Req.CrashAtOp = op
	second := HistItem{Req: q}
	if r.Chance(1, 2) {
		second.Req = genDeepReq(r, b, b.pkg.Output, 0, 1, 5)
		second.Req.DebugSnap = nil
	}
	s.History = []HistItem{first, second}
	fixHead(s)
	return s
}

func GenC07(seed uint64) *Scenario {
	if base, k, ok := sweepBase(seed, 96, "C07"); ok {
		return genC07CrashSweep(seed, base, k)
	}
	r := NewRng(seed, "gen", "C07")
	b := genBase(r, GenOpts{WantStores: r.Range(0, 2), MinMods: 3, MaxMods: 7}, 0)
	s := &Scenario{Prop: "C07", Seed: seed, Family: "cache_subsets", Pkg: b.pkg, Head: b.head, ConfDepth: uint64(r.Range(1, 4))}
	genPolicy(r, s)
	na := r.Range(1, 3)
	maps := []string{}
	for _, m := range b.pkg.Mods {
		if m.Spec.Kind == "map" {
			maps = append(maps, m.Spec.Name)
		}
	}
	for i := 0; i <= na; i++ {
		out := b.pkg.Output
		if i < na && r.Chance(1, 4) {
			out = maps[r.Intn(len(maps))]
		}
		h := HistItem{Req: genDeepReq(r, b, out, 0, 1, 5)}
		if i < na {
			switch r.Intn(5) {
			case 0, 1: // crash at a uniformly chosen operation
				h.Req.CrashAtOp = r.Range(1, 200)
			case 2: // client goes away
				h.Req.DisconnectAt = r.Range(1, 6)
			}
			if r.Chance(3, 5) {
				h.EvictN = []int{80, 250, 500, 800}[r.Intn(4)]
				h.EvictK = []string{"any", "full", "partial", "output", "notfull", "states", "index", "notoutput"}[r.Intn(8)]
			}
		}
		s.History = append(s.History, h)
	}
	if r.Chance(1, 6) {
		s.Ghost = []int{30, 100, 300}[r.Intn(3)]
		s.Family = "cache_subsets_concurrent_writer"
	} else if r.Chance(1, 3) {
		// tier2 workers die between two of their writes; the retried job finds what the dead one left
		s.Rates = map[string]int{"t2_crash": []int{80, 200, 400}[r.Intn(3)]}
		s.MaxF = map[string]int{"t2_crash": r.Range(1, 4)}
		s.Family = "cache_subsets_worker_crashes"
	} else if r.Chance(1, 4) {
		// transient object-store faults while the requests run: the engine's retry loops must absorb them
		s.Family = "cache_subsets_io_faults"
		s.Rates = map[string]int{}
		kinds := []string{"io_err_read", "short_read", "io_err_write", "lost_ack", "io_err_list", "io_err_exists"}
		n := r.Range(1, 3)
		for i := 0; i < n; i++ {
			s.Rates[kinds[r.Intn(len(kinds))]] = []int{5, 15, 30}[r.Intn(3)]
		}
	}
	// Files left by a run with another segment size (a re-configured deployment over the same store): same module
	// hashes, same directories, ranges that share a start block (the module's initial block, common multiples) but not
	// the end. Drawn from its own stream so that every other choice of the scenario stays what it was.
	if r2 := NewRng(seed, "gen", "C07seg"); r2.Chance(1, 8) && na >= 1 {
		j := 0 // the first request: nothing of the usual alignment exists yet when it runs
		alt := []uint64{b.seg / 2, b.seg - 1, b.seg + 1, b.seg * 2, b.seg + b.seg/2}[r2.Intn(5)]
		if alt < 2 {
			alt = 2
		}
		if alt == b.seg {
			alt = b.seg + 2
		}
		s.History[j].Req.SegSize = alt
		// every .output file is evicted after that request: output files of another segment size make a later request
		// for the same mapper wait forever (known finding KF3, reported from its committed replay), so they are kept
		// out of the sampled scenarios; store snapshots and partials of the other alignment stay.
		s.History[j].DropOutputs = true
		s.Family += "_other_segment_size"
	}
	fixHead(s)
	return s
}

var transientKinds = []string{"unavailable_at_call", "reset_mid_stream", "reset_after_completion", "silent_partition", "deadline_at_call", "deadline_mid_stream", "t2_crash", "t2_crash"}

var sweepKinds = []string{"unavailable_at_call", "reset_mid_stream", "reset_after_completion", "silent_partition", "deadline_at_call", "deadline_mid_stream", "t2_crash", "failing_block"}

// genC16Sweep: one base scenario (production request with several jobs); consecutive seeds place ONE transient
// fault of each kind at the 1st, 2nd, ... 16th site where that kind can strike, or make one module fail
// deterministically at the 1st, 2nd, ... block of the range.
func genC16Sweep(seed, base uint64, k int) *Scenario {
	r := NewRng(base, "gen", "C16sweep")
	b := genBase(r, GenOpts{WantStores: r.Range(1, 2), MinMods: 3, MaxMods: 6, NoIndex: true}, 0)
	s := &Scenario{Prop: "C16", Seed: seed, Pkg: b.pkg, Head: b.head, ConfDepth: uint64(r.Range(1, 4))}
	genPolicy(r, s)
	q := genDeepReq(r, b, b.pkg.Output, 0, 1, 3)
	q.Prod = true
	q.DebugSnap = nil
	kind := sweepKinds[k%len(sweepKinds)]
	n := k/len(sweepKinds) + 1
	if kind == "failing_block" {
		s.Family = "failing_block_sweep"
		anc := b.pkg.Ancestors(q.Output)
		var cands []*ModDef
		for _, m := range b.pkg.Mods {
			if anc[m.Spec.Name] && m.Spec.Kind != "index" {
				cands = append(cands, m)
			}
		}
		m := cands[r.Intn(len(cands))]
		mode := r.Intn(2)
		span := q.Stop - uint64(q.Start)
		m.Spec.FailAt = int64(uint64(q.Start) + uint64(n-1)%span)
		m.Spec.FailMode = mode
	} else {
		s.Family = "placement_sweep"
		s.NthF = map[string]int{kind: n}
	}
	s.History = []HistItem{{Req: q}}
	fixHead(s)
	return s
}

func GenC16(seed uint64) *Scenario {
	if base, k, ok := sweepBase(seed, 128, "C16"); ok {
		return genC16Sweep(seed, base, k)
	}
	r := NewRng(seed, "gen", "C16")
	b := genBase(r, GenOpts{WantStores: r.Range(0, 2), MinMods: 3, MaxMods: 6, NoIndex: r.Chance(3, 4)}, 0)
	s := &Scenario{Prop: "C16", Seed: seed, Pkg: b.pkg, Head: b.head, ConfDepth: uint64(r.Range(1, 4))}
	genPolicy(r, s)
	q := genDeepReq(r, b, b.pkg.Output, 0, 1, 5)
	if r.Chance(3, 5) {
		s.Family = "transient_faults"
		q.Prod = q.Prod || r.Chance(1, 2)
		if q.Prod {
			q.DebugSnap = nil
		}
		s.Rates = map[string]int{}
		s.MaxF = map[string]int{}
		nk := r.Range(1, 3)
		for i := 0; i < nk; i++ {
			k := transientKinds[r.Intn(len(transientKinds))]
			s.Rates[k] = []int{60, 150, 400}[r.Intn(3)]
			s.MaxF[k] = 1
			if r.Chance(1, 3) && k != "deadline_at_call" && k != "deadline_mid_stream" {
				s.MaxF[k] = 2
			}
		}
		// three execution timeouts on ONE job are fatal by design; the simulator never injects more than two on a
		// job unit (core.go faultFor), so any number of them spread over the jobs of a request must be survived
		if r.Chance(1, 4) {
			s.Family = "timeouts_across_jobs"
			q.Prod = true
			q.DebugSnap = nil
			for _, k := range []string{"deadline_at_call", "deadline_mid_stream"} {
				if r.Chance(2, 3) || (k == "deadline_mid_stream" && s.Rates["deadline_at_call"] == 0) {
					s.Rates[k] = []int{300, 600}[r.Intn(2)]
					s.MaxF[k] = r.Range(2, 5)
				}
			}
			q.Workers = uint64(r.Range(1, 2))
		}
		if r.Chance(1, 4) {
			s.NTier2 = 1
			s.T2Max = uint64(r.Range(1, 2)) // real overload path
			q.Workers = uint64(r.Range(2, 4))
		}
	} else {
		s.Family = "deterministic_failure"
		if r.Chance(1, 3) {
			// the failing job (or its neighbours) first fails transiently: the failure code must survive the retries
			s.Family = "deterministic_failure_after_retries"
			q.Prod = true
			q.DebugSnap = nil
			s.Rates = map[string]int{}
			s.MaxF = map[string]int{}
			for i := 0; i < r.Range(1, 2); i++ {
				k := []string{"unavailable_at_call", "reset_mid_stream", "t2_crash", "silent_partition"}[r.Intn(4)]
				s.Rates[k] = []int{300, 600}[r.Intn(2)]
				s.MaxF[k] = r.Range(1, 3)
			}
		}
		anc := b.pkg.Ancestors(q.Output)
		var cands []*ModDef
		for _, m := range b.pkg.Mods {
			if anc[m.Spec.Name] && m.Spec.Kind != "index" {
				cands = append(cands, m)
			}
		}
		m := cands[r.Intn(len(cands))]
		span := q.Stop - uint64(q.Start)
		fb := uint64(q.Start) + uint64(r.Intn(int(span)))
		switch r.Intn(4) {
		case 0:
			fb = uint64(q.Start) // first block of the range
		case 1:
			fb = q.Stop - 1 // last block
		}
		m.Spec.FailAt = int64(fb)
		m.Spec.FailMode = r.Intn(2)
	}
	s.History = []HistItem{{Req: q}}
	fixHead(s)
	return s
}

// keep the import used even when a family does not need it
var _ = bstream.GetProtocolFirstStreamableBlock
var _ = fmt.Sprintf

// ---- C04: delivery order / completeness / cursors / resumption ----

func GenC04(seed uint64) *Scenario {
	r := NewRng(seed, "gen", "C04")
	b := genBase(r, GenOpts{WantStores: r.Range(0, 2), MinMods: 2, MaxMods: 6, NoIndex: r.Chance(3, 4)}, 0)
	s := &Scenario{Prop: "C04", Seed: seed, Family: "delivery_and_resume", Pkg: b.pkg, Head: b.head, ConfDepth: uint64(r.Range(1, 4))}
	genPolicy(r, s)
	q := genDeepReq(r, b, b.pkg.Output, 0, 0, 4)
	if r.Chance(1, 2) {
		q = genReq(r, b, b.pkg, b.pkg.Output, 0)
	}
	if q.Stop < uint64(q.Start)+4 {
		q.Stop = uint64(q.Start) + 4 + uint64(r.Intn(int(b.seg)))
	}
	// most of the range final so that final cursors exist
	if q.Final < q.Stop && r.Chance(3, 4) {
		q.Final = q.Stop + uint64(r.Intn(int(b.seg)))
	}
	if r.Chance(1, 5) {
		q.FinalOnly = true
	}
	first := HistItem{Req: q}
	switch r.Intn(4) {
	case 0:
		first.Req.DisconnectAt = r.Range(1, 12)
	case 1:
		s.Family = "failure_then_nothing"
		anc := b.pkg.Ancestors(q.Output)
		var cands []*ModDef
		for _, m := range b.pkg.Mods {
			if anc[m.Spec.Name] && m.Spec.Kind != "index" {
				cands = append(cands, m)
			}
		}
		m := cands[r.Intn(len(cands))]
		m.Spec.FailAt = int64(uint64(q.Start) + uint64(r.Intn(int(q.Stop-uint64(q.Start)))))
		m.Spec.FailMode = r.Intn(2)
	}
	s.History = append(s.History, first)
	if s.Family != "failure_then_nothing" {
		n := r.Range(1, 2)
		for i := 0; i < n; i++ {
			h := HistItem{Req: q, ResumeOf: 1, ResumeK: r.Intn(1000), Fresh: r.Chance(1, 3)}
			h.Req.DisconnectAt = 0
			h.Req.DebugSnap = nil
			h.Req.Workers = uint64(r.Range(1, 4))
			s.History = append(s.History, h)
		}
	}
	fixHead(s)
	return s
}

type c04Checker struct {
	inner *stratChecker
}

func (c *c04Checker) Setup(x *Exec) *Violation {
	c.inner = &stratChecker{prop: "C04", fileInv: false}
	return c.inner.Setup(x)
}

func (c *c04Checker) AfterRequest(x *Exec, idx int, h *HistItem, res *RunResult) *Violation {
	if res.Session == nil && res.Err == nil && len(res.Msgs) == 0 && h.ResumeOf > 0 {
		return nil // nothing eligible to resume from
	}
	if v := c.inner.AfterRequest(x, idx, h, res); v != nil {
		return v
	}
	if h.ResumeOf == 0 {
		return nil
	}
	from, ok := x.ResumedFrom[idx]
	if !ok {
		return nil
	}
	if res.Session != nil && res.Session.ResolvedStartBlock != from.Num+1 {
		return viol("C04", "resume_wrong_start", "resumed from the cursor of final block %d but the stream starts at %d", from.Num, res.Session.ResolvedStartBlock)
	}
	// the resumed stream equals what followed that message in the original stream
	orig := x.Results[h.ResumeOf-1].Data()
	var tail []Msg
	seen := false
	for _, m := range orig {
		if seen {
			tail = append(tail, m)
		}
		if m.Num == from.Num && m.ID == from.ID {
			seen = true
		}
	}
	got := res.Data()
	gi := map[uint64]Msg{}
	for _, m := range got {
		gi[m.Num] = m
	}
	for _, om := range tail {
		gm, ok := gi[om.Num]
		if !ok {
			// empty blocks may be omitted only below the hand-off of a production request
			if len(om.Payload) == 0 && h.Req.Prod && res.Session != nil && om.Num < res.Session.LinearHandoffBlock {
				continue
			}
			return viol("C04", "resume_missing", "original stream delivered block %d after the cursor, the resumed stream does not", om.Num)
		}
		if gm.ID != om.ID || string(gm.Payload) != string(om.Payload) {
			return viol("C04", "resume_differs", "block %d: original (%s,%q), resumed (%s,%q)", om.Num, om.ID, om.Payload, gm.ID, gm.Payload)
		}
	}
	x.Probe("resumed_stream_compared")
	if h.Fresh {
		x.Probe("resumed_on_empty_store")
	}
	x.Rep.NonTrivial = true
	return nil
}

func (c *c04Checker) Finish(x *Exec) *Violation { return nil }

// ---- C15: block-index filtering never changes results ----

func GenC15(seed uint64) *Scenario {
	r := NewRng(seed, "gen", "C15")
	b := genBase(r, GenOpts{WantIndex: true, MaxIndex: r.Range(1, 2), WantStores: r.Range(0, 2), MinMods: 3, MaxMods: 7, FilterPm: 750}, 0)
	s := &Scenario{Prop: "C15", Seed: seed, Family: "index_present_absent", Pkg: b.pkg, Head: b.head, ConfDepth: uint64(r.Range(1, 4))}
	genPolicy(r, s)
	nh := r.Range(1, 2)
	for i := 0; i <= nh; i++ {
		h := HistItem{Req: genDeepReq(r, b, b.pkg.Output, 0, 1, 5)}
		if i < nh {
			switch r.Intn(4) {
			case 0:
				h.EvictN, h.EvictK = 1000, "index" // all index files gone, outputs stay
			case 1:
				h.EvictN, h.EvictK = 500, "index" // index present for some segments only
			case 2:
				h.EvictN, h.EvictK = []int{300, 700}[r.Intn(2)], []string{"output", "notoutput", "any"}[r.Intn(3)]
			}
			if r.Chance(1, 5) {
				h.Req.CrashAtOp = r.Range(5, 150)
			}
		}
		s.History = append(s.History, h)
	}
	fixHead(s)
	return s
}

type c15Checker struct {
	inner *stratChecker
	mu    sync.Mutex
	execs []ExecEvent
}

func (c *c15Checker) Setup(x *Exec) *Violation {
	c.inner = &stratChecker{prop: "C15", fileInv: true}
	x.Env.RecordExecs()
	return c.inner.Setup(x)
}

func (c *c15Checker) AfterRequest(x *Exec, idx int, h *HistItem, res *RunResult) *Violation {
	execs := x.Env.TakeExecs()
	if v := c.inner.AfterRequest(x, idx, h, res); v != nil {
		return v
	}
	pkg := x.S.Pkg
	ref, err := x.Ref(pkg, h.Req.Output, h.Req.SegSize)
	if err != nil {
		return nil
	}
	filtered := map[string]*FilterDef{}
	for _, m := range pkg.Mods {
		if m.Filter != nil {
			filtered[m.Spec.Name] = m.Filter
		}
	}
	// seam check: a filtered module is never run on a block its filter rejects
	for _, ev := range execs {
		f := filtered[ev.Module]
		if f == nil {
			continue
		}
		rb := ref.ByID[ev.ID]
		if rb == nil || rb.Err != nil {
			continue
		}
		raw, ok := rb.Maps[f.IndexMod]
		keys := map[string]bool{}
		if ok {
			k := &pbindex.Keys{}
			if err := proto.Unmarshal(raw, k); err == nil {
				for _, kk := range k.Keys {
					keys[kk] = true
				}
			}
		}
		if !f.Expr.Eval(keys) {
			return viol("C15", "ran_on_rejected_block", "module %s (filter %s over %s) was executed on block %d whose keys are %v", ev.Module, f.Query, f.IndexMod, ev.Block, sortedKeys(keys))
		}
		x.Probe("filtered_module_executions_checked")
	}
	for _, k := range x.Disk.Keys() {
		if strings.HasSuffix(k, ".index") {
			x.Probe("index_files_present_after_request")
			break
		}
	}
	return nil
}

func (c *c15Checker) Finish(x *Exec) *Violation { return nil }
