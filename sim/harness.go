package sim

// Env: one simulated deployment (disk, chain, tier2 nodes, transport) and the
// code that runs real tier1 requests against it inside a synctest bubble.

import (
	"context"
	"errors"
	"fmt"
	"os"
	"sort"
	"sync"
	"sync/atomic"
	"time"

	"connectrpc.com/connect"
	"github.com/streamingfast/bstream"
	bsstream "github.com/streamingfast/bstream/stream"
	"github.com/streamingfast/dmetering"
	"github.com/streamingfast/dstore"
	"github.com/streamingfast/substreams"
	"github.com/streamingfast/substreams/orchestrator/loop"
	"github.com/streamingfast/substreams/orchestrator/work"
	pbsubstreamsrpc "github.com/streamingfast/substreams/pb/sf/substreams/rpc/v2"
	"github.com/streamingfast/substreams/pipeline"
	"github.com/streamingfast/substreams/reqctx"
	"github.com/streamingfast/substreams/service"
	"github.com/streamingfast/substreams/service/config"
	"github.com/streamingfast/substreams/storage/store"
	"github.com/streamingfast/substreams/wasm/wazero"
	"go.uber.org/zap"
)

func init() {
	os.Setenv("SUBSTREAMS_WASM_RUNTIME", SimVMName)
	dmetering.RegisterNull()
	wazero.SetTempDir("/verif/.cache") // compilation cache of the real-wazero configuration
}

var curEnv *Env // the env of the run in progress (hooks are process-global)

func init() {
	loop.VerifYield = func(msg loop.Msg) {
		e := curEnv
		if e == nil || e.Sim == nil {
			return
		}
		e.onLoopSend(msg)
	}
	service.VerifStateStore = func(ctx context.Context, url string) dstore.Store {
		e := curEnv
		if e == nil {
			return nil
		}
		node := "t2?"
		if j, ok := ctx.Value(jobCtxKey{}).(*JobInfo); ok {
			node = j.ID
		}
		return NewStore(e.Disk, e.Sim, node)
	}
}

type Env struct {
	Sim     *Sim
	Disk    *Disk
	Chain   *Chain
	Tier2s  []*tier2Node
	T2Max   uint64
	rootCtx context.Context

	mu        sync.Mutex
	tries     map[string]int
	curTier1  string
	reqSeq    int
	wg        sync.WaitGroup
	panics    []string
	Mon       *Monitor // seam monitors (C05), may be nil
	loopSeq   map[string]int
	inRequest atomic.Bool
	// observers
	T2Obs StreamObserver
	T1Obs StreamObserver
	// probes
	Probes   map[string]int
	execs    []ExecEvent
	recExecs bool
}

func NewEnv(sim *Sim, disk *Disk, chain *Chain, nTier2 int, t2max uint64) *Env {
	e := &Env{Sim: sim, Disk: disk, Chain: chain, T2Max: t2max, tries: map[string]int{}, loopSeq: map[string]int{}, Probes: map[string]int{}, rootCtx: context.Background()}
	for i := 0; i < nTier2; i++ {
		n := &tier2Node{name: fmt.Sprintf("node%d", i)}
		n.svc = service.TestNewServiceTier2(false, e.tier2StreamFactory)
		service.WithReadinessFunc(func(bool) {})(n.svc)
		service.WithBlockExecutionTimeout(3 * time.Minute)(n.svc)
		if t2max > 0 {
			service.WithMaxConcurrentRequests(t2max)(n.svc)
		}
		e.Tier2s = append(e.Tier2s, n)
	}
	return e
}

func (e *Env) Probe(name string) {
	e.mu.Lock()
	e.Probes[name]++
	e.mu.Unlock()
}

func (e *Env) notePanic(s string) {
	e.mu.Lock()
	e.panics = append(e.panics, s)
	e.mu.Unlock()
}

func (e *Env) Panics() []string {
	e.mu.Lock()
	defer e.mu.Unlock()
	return append([]string(nil), e.panics...)
}

func (e *Env) noteJobAccepted(j *JobInfo) {
	if e.Mon != nil {
		e.Mon.JobAccepted(e, j)
	}
}
func (e *Env) noteJobEnded(j *JobInfo, err error) {
	if e.Mon != nil {
		e.Mon.JobEnded(e, j, err)
	}
}

func (e *Env) onLoopSend(msg loop.Msg) {
	switch msg.(type) {
	case loop.BatchMsg, loop.SequenceMsg:
		// plumbing: the commands of a batch park at their own Send with a semantic label; batches
		// themselves carry opaque funcs and cannot be told apart, so they are not scheduling points
		return
	}
	label := msgLabel(msg)
	e.mu.Lock()
	node := e.curTier1
	e.mu.Unlock()
	e.Sim.Yield(node, "loop|send|"+label)
	if e.Mon != nil {
		e.Mon.LoopMsg(e, msg)
	}
}

func (e *Env) tier2StreamFactory(ctx context.Context, h bstream.Handler, startBlockNum int64, stopBlockNum uint64, cursor string, finalBlocksOnly bool, cursorIsTarget bool, logger *zap.Logger, extraOpts ...bsstream.Option) (service.Streamable, error) {
	node := "t2?"
	if j, ok := ctx.Value(jobCtxKey{}).(*JobInfo); ok {
		node = j.ID
	}
	e.Probe("t2_used_block_source")
	return &simStream{env: e, node: node, h: h, pipe: unwrapPipeline(h), start: uint64(startBlockNum), stop: stopBlockNum, tier2: true, obs: e.T2Obs}, nil
}

// ---- requests ----

type ReqSpec struct {
	Prod      bool     `json:"prod"`
	Start     int64    `json:"start"`
	Stop      uint64   `json:"stop"`
	Final     uint64   `json:"final"` // what getRecentFinalBlock answers; 0 = no live feed
	SegSize   uint64   `json:"seg"`
	Workers   uint64   `json:"workers"`
	Output    string   `json:"output"`
	Cursor    string   `json:"cursor,omitempty"`
	DebugSnap []string `json:"debug_snap,omitempty"`
	FinalOnly bool     `json:"final_only,omitempty"`
	// client behaviour
	DisconnectAt int `json:"disconnect_at,omitempty"` // fail the k-th data message (1-based), 0 = never
	// crash: kill tier1 at its n-th released operation (0 = never)
	CrashAtOp int `json:"crash_at_op,omitempty"`
}

type Delta struct {
	Op       int32
	Ord      uint64
	Key      string
	Old, New []byte
}

type Msg struct {
	Kind       string // session | data | undo | snapshot | progress | fatal | other
	Num        uint64
	ID         string
	Payload    []byte
	Cursor     string
	FinalH     uint64
	DebugMaps  map[string][]byte
	DebugStore map[string][]Delta
	UndoNum    uint64
	UndoID     string
	AfterErr   bool
	SnapModule string
	SnapKV     map[string][]byte
	SnapTotal  uint64
	SnapSent   uint64
}

type StoreState struct {
	KV   map[string][]byte
	Size uint64
	Full bool // a full store (not a segment's partial)
}

type RunResult struct {
	Msgs       []Msg
	Err        error
	Code       connect.Code
	HasErr     bool
	Outcome    Outcome
	Panic      string
	Session    *pbsubstreamsrpc.SessionInit
	Handoff    map[string]StoreState // stores handed to the linear phase (nil if no linear phase)
	HandoffAt  uint64
	Node       string
	Steps      int
	StepBudget int
	VirtTime   time.Duration
	LeakedIO   int // tier1 writes still in flight when the request returned
}

func (r *RunResult) Data() []Msg {
	var out []Msg
	for _, m := range r.Msgs {
		if m.Kind == "data" {
			out = append(out, m)
		}
	}
	return out
}

func snapshotStores(pipe *pipeline.Pipeline) map[string]StoreState {
	out := map[string]StoreState{}
	if pipe == nil {
		return out
	}
	sm := pipe.GetStoreMap()
	for name, st := range sm {
		_, isFull := st.(*store.FullKV)
		ss := StoreState{KV: map[string][]byte{}, Size: st.SizeBytes(), Full: isFull}
		st.Iter(func(k string, v []byte) error {
			ss.KV[k] = append([]byte(nil), v...)
			return nil
		})
		out[name] = ss
	}
	return out
}

type reqRun struct {
	env  *Env
	spec *ReqSpec
	res  *RunResult
	mu   sync.Mutex
	done bool
	data int
	node string
	obs  StreamObserver
}

func (rr *reqRun) respFunc(respAny substreams.ResponseFromAnyTier) error {
	resp, ok := respAny.(*pbsubstreamsrpc.Response)
	if !ok {
		return nil
	}
	rr.mu.Lock()
	defer rr.mu.Unlock()
	if rr.done {
		// Tier1Service.Blocks wraps the response function: once the handler has returned, its context is cancelled
		// under a mutex and every later send is refused (tier1ResponseHandler). VerifBlocks runs below that wrapper,
		// so the harness refuses the same way; a late send by a goroutine that outlived the request is counted.
		rr.env.Probe("send_after_return_refused")
		return context.Canceled
	}
	m := Msg{Kind: "other"}
	switch x := resp.Message.(type) {
	case *pbsubstreamsrpc.Response_Session:
		m.Kind = "session"
		rr.res.Session = x.Session
	case *pbsubstreamsrpc.Response_Progress:
		m.Kind = "progress"
		return nil // not recorded
	case *pbsubstreamsrpc.Response_FatalError:
		m.Kind = "fatal"
	case *pbsubstreamsrpc.Response_DebugSnapshotData:
		m.Kind = "snapshot"
		m.SnapModule = x.DebugSnapshotData.ModuleName
		m.SnapKV = map[string][]byte{}
		m.SnapTotal = x.DebugSnapshotData.TotalKeys
		m.SnapSent = x.DebugSnapshotData.SentKeys
		for _, d := range x.DebugSnapshotData.Deltas {
			m.SnapKV[d.Key] = d.NewValue
		}
	case *pbsubstreamsrpc.Response_DebugSnapshotComplete:
		m.Kind = "snapshot_complete"
	case *pbsubstreamsrpc.Response_BlockUndoSignal:
		m.Kind = "undo"
		m.UndoNum = x.BlockUndoSignal.LastValidBlock.GetNumber()
		m.UndoID = x.BlockUndoSignal.LastValidBlock.GetId()
		m.Cursor = x.BlockUndoSignal.LastValidCursor
	case *pbsubstreamsrpc.Response_BlockScopedData:
		d := x.BlockScopedData
		m.Kind = "data"
		m.Num, m.ID = d.Clock.GetNumber(), d.Clock.GetId()
		m.Cursor, m.FinalH = d.Cursor, d.FinalBlockHeight
		if d.Output != nil && d.Output.MapOutput != nil {
			m.Payload = append([]byte(nil), d.Output.MapOutput.Value...)
		}
		if len(d.DebugMapOutputs) > 0 {
			m.DebugMaps = map[string][]byte{}
			for _, o := range d.DebugMapOutputs {
				m.DebugMaps[o.Name] = append([]byte(nil), o.MapOutput.GetValue()...)
			}
		}
		if len(d.DebugStoreOutputs) > 0 {
			m.DebugStore = map[string][]Delta{}
			for _, o := range d.DebugStoreOutputs {
				var ds []Delta
				for _, sd := range o.DebugStoreDeltas {
					ds = append(ds, Delta{Op: int32(sd.Operation), Ord: sd.Ordinal, Key: sd.Key, Old: sd.OldValue, New: sd.NewValue})
				}
				m.DebugStore[o.Name] = ds
			}
		}
		rr.data++
		if rr.spec.DisconnectAt > 0 && rr.data == rr.spec.DisconnectAt {
			rr.env.Probe("client_disconnect")
			return connect.NewError(connect.CodeUnavailable, errors.New("sim: client went away"))
		}
	}
	rr.res.Msgs = append(rr.res.Msgs, m)
	return nil
}

func (e *Env) tier1StreamFactory(rr *reqRun) service.StreamFactoryFunc {
	return func(ctx context.Context, h bstream.Handler, startBlockNum int64, stopBlockNum uint64, cursor string, finalBlocksOnly bool, cursorIsTarget bool, logger *zap.Logger, extraOpts ...bsstream.Option) (service.Streamable, error) {
		pipe := unwrapPipeline(h)
		rr.res.Handoff = snapshotStores(pipe)
		if os.Getenv("SIM_TRACE_STORES") == "1" {
			fmt.Printf("HANDOFF at %d: %s\n", startBlockNum, fmtStores(rr.res.Handoff))
			rr.obs = traceObs{}
		}
		rr.res.HandoffAt = uint64(startBlockNum)
		return &simStream{env: e, node: rr.node, h: h, pipe: pipe, start: uint64(startBlockNum), stop: stopBlockNum, finalMax: rr.spec.Final, obs: rr.obs, finalOnly: finalBlocksOnly}, nil
	}
}

// Budgets for liveness.
const (
	MaxStepsPerRequest = 20000
	IdleLimit          = 2 * time.Hour
)

// RunRequest executes one tier1 request to completion (or hang) under the scheduler.
// Must be called from the bubble's main goroutine.
// stepBudget is the liveness bound of one request: a base plus room for every (segment, module) job unit the
// request can need, so that a long back-fill with small segments and many stages is not taken for a livelock.
func stepBudget(pkg *PkgDef, spec *ReqSpec, head uint64) int {
	end := spec.Stop
	if end == 0 || end > head {
		end = head
	}
	seg := max(spec.SegSize, 1)
	segs := int(end/seg) + 2
	nmods := 1
	if pkg != nil {
		nmods = max(len(pkg.Modules().Modules), 1)
	}
	return MaxStepsPerRequest + 400*segs*nmods
}

func (e *Env) RunRequest(pkg *PkgDef, spec *ReqSpec, obs StreamObserver) *RunResult {
	e.mu.Lock()
	e.reqSeq++
	node := fmt.Sprintf("t1r%d", e.reqSeq)
	e.curTier1 = node
	e.tries = map[string]int{}
	e.mu.Unlock()
	curEnv = e

	res := &RunResult{Node: node}
	rr := &reqRun{env: e, spec: spec, res: res, node: node, obs: obs}
	if rr.obs == nil {
		rr.obs = e.T1Obs
	}
	store := NewStore(e.Disk, e.Sim, node)
	rc := config.RuntimeConfig{
		SegmentSize:                spec.SegSize,
		DefaultParallelSubrequests: spec.Workers,
		BaseObjectStore:            store,
		DefaultCacheTag:            "tag",
		MaxJobsAhead:               10,
		ClientFactory:              e.ClientFactory(),
	}
	cf := rc.ClientFactory
	rc.WorkerFactory = func(logger *zap.Logger) work.Worker { return work.NewRemoteWorker(cf, logger) }
	svc := service.TestNewService(rc, spec.Final, e.tier1StreamFactory(rr))
	service.WithBlockExecutionTimeout(3 * time.Minute)(svc)

	ctx, cancel := context.WithCancel(e.rootCtx)
	e.Sim.RegisterNode(node, cancel)
	if spec.CrashAtOp > 0 {
		e.Sim.KillNodeAtStep(node, spec.CrashAtOp)
	}
	ctx = dmetering.WithBytesMeter(ctx)
	ctx = reqctx.WithTier2RequestParameters(ctx, reqctx.Tier2RequestParameters{
		MeteringConfig:       "null://",
		FirstStreamableBlock: bstream.GetProtocolFirstStreamableBlock,
		MergedBlockStoreURL:  "memory://merged-blocks",
		StateStoreURL:        "memory://state",
		StateBundleSize:      spec.SegSize,
		StateStoreDefaultTag: "tag",
		BlockType:            BlockType,
	})
	req := &pbsubstreamsrpc.Request{
		StartBlockNum:                       spec.Start,
		StopBlockNum:                        spec.Stop,
		StartCursor:                         spec.Cursor,
		Modules:                             pkg.Modules(),
		OutputModule:                        spec.Output,
		ProductionMode:                      spec.Prod,
		FinalBlocksOnly:                     spec.FinalOnly,
		DebugInitialStoreSnapshotForModules: spec.DebugSnap,
	}

	done := make(chan struct{})
	step0 := e.Sim.Steps()
	t0 := time.Now()
	go func() {
		defer close(done)
		defer func() {
			if r := recover(); r != nil {
				res.Panic = fmt.Sprint(r)
				res.Err = fmt.Errorf("panic: %v", r)
				res.HasErr = true
			}
		}()
		err := svc.VerifBlocks(ctx, req, rr.respFunc)
		rr.mu.Lock()
		rr.done = true
		rr.mu.Unlock()
		if err != nil {
			res.Err = err
			res.HasErr = true
			res.Code = connect.CodeOf(err)
		}
	}()
	e.inRequest.Store(true)
	res.StepBudget = stepBudget(pkg, spec, e.Chain.Head)
	res.Outcome = e.Sim.Drive(done, step0+res.StepBudget, IdleLimit)
	e.inRequest.Store(false)
	res.Steps = e.Sim.Steps() - step0
	res.VirtTime = time.Since(t0)
	if res.Outcome == OutDone {
		// writes tier1 still has in flight when the request returned
		e.Disk.mu.Lock()
		res.LeakedIO = e.Disk.issuedBy[node]
		e.Disk.mu.Unlock()
	}
	cancel() // the real handler cancels the request context when it returns
	return res
}

// Settle lets background goroutines of finished requests terminate. After a hang the
// node is killed first so that nothing stays parked.
func (e *Env) Settle() {
	e.Sim.Drain(40 * time.Second)
}

// ---- message labels for loop.Send (type switch, never %v: messages carry pointers) ----

func msgLabel(msg loop.Msg) string {
	return msgLabelImpl(msg)
}

func sortedStoreNames(m map[string]StoreState) []string {
	out := make([]string, 0, len(m))
	for k := range m {
		out = append(out, k)
	}
	sort.Strings(out)
	return out
}

type traceObs struct{}

func (traceObs) AfterStep(pipe *pipeline.Pipeline, blk *CBlock, step bstream.StepType, err error) {
	fmt.Printf("T1 after %s %s err=%v: %s\n", blk.ID, step, err, fmtStores(snapshotStores(pipe)))
}

func fmtStores(m map[string]StoreState) string {
	out := ""
	for _, n := range sortedStoreNames(m) {
		out += n + "{"
		for _, k := range sortedKeysB(m[n].KV) {
			out += fmt.Sprintf("%s=%q ", k, m[n].KV[k])
		}
		out += fmt.Sprintf("size=%d} ", m[n].Size)
	}
	return out
}

// RecordExecs turns on recording of module executions (simvm hook) for the requests of this env.
func (e *Env) RecordExecs() {
	e.recExecs = true
	SetExecHook(func(ev ExecEvent) {
		if curEnv == e && e.recExecs && e.inRequest.Load() {
			e.mu.Lock()
			e.execs = append(e.execs, ev)
			e.mu.Unlock()
		}
	})
}

func (e *Env) TakeExecs() []ExecEvent {
	e.mu.Lock()
	defer e.mu.Unlock()
	out := e.execs
	e.execs = nil
	return out
}
