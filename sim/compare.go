package sim

import (
	"bytes"
	"fmt"
	"sort"
	"strconv"
	"strings"
	"sync"

	pbsubstreams "github.com/streamingfast/substreams/pb/sf/substreams/v1"

	"connectrpc.com/connect"
	"github.com/streamingfast/bstream"
)

type Violation struct {
	Prop   string `json:"prop"`
	Class  string `json:"class"`
	Detail string `json:"detail"`
	ReqIdx int    `json:"req_idx"`
}

func (v *Violation) String() string { return fmt.Sprintf("%s/%s: %s", v.Prop, v.Class, v.Detail) }

func viol(prop, class, format string, a ...any) *Violation {
	return &Violation{Prop: prop, Class: class, Detail: fmt.Sprintf(format, a...), ReqIdx: -1}
}

type storeMetaT struct {
	setSum bool
	float  bool
}

var storeMetaCache sync.Map // *PkgDef -> map[string]storeMetaT

func storeMeta(pkg *PkgDef, store string) storeMetaT {
	if v, ok := storeMetaCache.Load(pkg); ok {
		return v.(map[string]storeMetaT)[store]
	}
	m := map[string]storeMetaT{}
	for _, mod := range pkg.Modules().Modules {
		if ks := mod.GetKindStore(); ks != nil {
			m[mod.Name] = storeMetaT{
				setSum: ks.UpdatePolicy == pbsubstreams.Module_KindStore_UPDATE_POLICY_SET_SUM,
				float:  strings.EqualFold(ks.ValueType, "float64"),
			}
		}
	}
	storeMetaCache.Store(pkg, m)
	return m[store]
}

// normSetSum reduces a stored value to its typed value: the set:/sum: tag of set_sum stores is dropped
// (squashing turns set: into sum: by design), and float64 values are re-rendered canonically (the write
// path formats with 100 digits of precision, the merge path with the shortest representation).
func normSetSum(pkg *PkgDef, store string, v []byte) []byte {
	meta := storeMeta(pkg, store)
	if meta.setSum {
		v = stripSetSum(v)
	}
	if meta.float && len(v) > 0 {
		if f, err := strconv.ParseFloat(string(v), 64); err == nil {
			return []byte(strconv.FormatFloat(f, 'g', -1, 64))
		}
	}
	return v
}

// CompareStores checks got against want (typed values: the set:/sum: tag of set_sum stores is ignored).
func CompareStores(pkg *PkgDef, got, want map[string]StoreState, only map[string]bool) string {
	for _, name := range sortedStoreNames(want) {
		if only != nil && !only[name] {
			continue
		}
		g, ok := got[name]
		if !ok {
			return fmt.Sprintf("store %s missing", name)
		}
		w := want[name]
		for _, k := range sortedKeysB(w.KV) {
			gv, ok := g.KV[k]
			if !ok {
				return fmt.Sprintf("store %s: key %q missing (want %q)", name, k, w.KV[k])
			}
			if !bytes.Equal(normSetSum(pkg, name, gv), normSetSum(pkg, name, w.KV[k])) {
				return fmt.Sprintf("store %s: key %q = %q, want %q", name, k, gv, w.KV[k])
			}
		}
		for _, k := range sortedKeysB(g.KV) {
			if _, ok := w.KV[k]; !ok {
				return fmt.Sprintf("store %s: extra key %q = %q", name, k, g.KV[k])
			}
		}
	}
	return ""
}

// SizeExact checks SizeBytes() == sum(len(key)+len(value)) for every store.
func SizeExact(stores map[string]StoreState) string {
	for _, name := range sortedStoreNames(stores) {
		s := stores[name]
		var real uint64
		for k, v := range s.KV {
			real += uint64(len(k) + len(v))
		}
		if real != s.Size {
			return fmt.Sprintf("store %s reports size %d, real content is %d bytes (%d keys)", name, s.Size, real, len(s.KV))
		}
	}
	return ""
}

func sortedKeysB(m map[string][]byte) []string {
	out := make([]string, 0, len(m))
	for k := range m {
		out = append(out, k)
	}
	sort.Strings(out)
	return out
}

func deltasEqual(pkg *PkgDef, store string, a, b []Delta) bool {
	if len(a) != len(b) {
		return false
	}
	for i := range a {
		if a[i].Op != b[i].Op || a[i].Ord != b[i].Ord || a[i].Key != b[i].Key {
			return false
		}
		if !bytes.Equal(normSetSum(pkg, store, a[i].Old), normSetSum(pkg, store, b[i].Old)) || !bytes.Equal(normSetSum(pkg, store, a[i].New), normSetSum(pkg, store, b[i].New)) {
			return false
		}
	}
	return true
}

// StreamExpect describes what a fork-free request must deliver.
type StreamExpect struct {
	Start, Stop uint64
	Handoff     uint64
	Prod        bool
	// FailBlock: block at which a deterministic failure is expected (nil = none)
	FailBlock *uint64
	// OpenEnd: for open-ended requests (stop 0), the exclusive end of what the chain could deliver
	OpenEnd uint64
}

// CheckStream checks a fork-free response stream against R0. prop is the property to attribute to.
// Returns violations for: wrong payload, reordering, duplicates, out-of-range, missing non-empty block,
// missing block from the hand-off on (or any block in dev mode), bad cursor, data after error.
func CheckStream(prop string, pkg *PkgDef, ref *Ref, res *RunResult, ex StreamExpect, complete bool) *Violation {
	var last int64 = -1
	seen := map[uint64]bool{}
	first := true
	for i, m := range res.Msgs {
		if i == 0 && m.Kind != "session" {
			return viol(prop, "session_not_first", "first message is %q", m.Kind)
		}
		if m.AfterErr && (m.Kind == "data" || m.Kind == "undo") {
			return viol(prop, "data_after_return", "message %q for block %d delivered after the request returned", m.Kind, m.Num)
		}
		if m.Kind == "undo" {
			return viol(prop, "unexpected_undo", "undo signal in a fork-free stream (last valid %d)", m.UndoNum)
		}
		if m.Kind != "data" {
			continue
		}
		if m.Num < ex.Start || (ex.Stop != 0 && m.Num >= ex.Stop) {
			return viol(prop, "out_of_range", "block %d delivered for range [%d,%d)", m.Num, ex.Start, ex.Stop)
		}
		if int64(m.Num) <= last {
			if seen[m.Num] {
				return viol(prop, "duplicate", "block %d delivered twice", m.Num)
			}
			return viol(prop, "reordered", "block %d delivered after block %d", m.Num, last)
		}
		last = int64(m.Num)
		seen[m.Num] = true
		rb := ref.Canon[m.Num]
		if rb == nil {
			return viol(prop, "invented_block", "block %d (%s) is not in the reference", m.Num, m.ID)
		}
		if rb.ID != m.ID {
			return viol(prop, "wrong_id", "block %d has id %q, want %q", m.Num, m.ID, rb.ID)
		}
		if ex.FailBlock != nil && m.Num >= *ex.FailBlock {
			return viol(prop, "delivered_at_or_after_failure", "block %d delivered although the module fails at block %d", m.Num, *ex.FailBlock)
		}
		if !bytes.Equal(m.Payload, rb.Out) {
			return viol(prop, "payload_mismatch", "block %d: payload %q, sequential execution gives %q", m.Num, m.Payload, rb.Out)
		}
		// debug outputs (dev mode)
		for _, name := range sortedKeysB(m.DebugMaps) {
			if want, ok := rb.Maps[name]; !ok || !bytes.Equal(want, m.DebugMaps[name]) {
				return viol(prop, "debug_map_mismatch", "block %d: module %s output %q, sequential execution gives %q (present=%v)", m.Num, name, m.DebugMaps[name], want, ok)
			}
		}
		for name, ds := range m.DebugStore {
			if !deltasEqual(pkg, name, ds, rb.Deltas[name]) {
				return viol(prop, "store_deltas_mismatch", "block %d: store %s deltas %v, sequential execution gives %v", m.Num, name, fmtDeltas(ds), fmtDeltas(rb.Deltas[name]))
			}
		}
		if !ex.Prod {
			for _, name := range sortedKeysB(rb.Maps) {
				if _, ok := m.DebugMaps[name]; !ok && m.Num >= ex.Handoff {
					return viol(prop, "debug_map_missing", "block %d: module %s output missing, sequential execution gives %q", m.Num, name, rb.Maps[name])
				}
			}
		}
		// cursor designates this block
		cur, err := bstream.CursorFromOpaque(m.Cursor)
		if err != nil {
			return viol(prop, "bad_cursor", "block %d: cursor does not decode: %v", m.Num, err)
		}
		if cur.Block.Num() != m.Num || cur.Block.ID() != m.ID {
			return viol(prop, "cursor_wrong_block", "block %d (%s): cursor designates %d (%s)", m.Num, m.ID, cur.Block.Num(), cur.Block.ID())
		}
		_ = first
		first = false
	}
	if !complete {
		return nil
	}
	// completeness
	end := ex.Stop
	if end == 0 {
		end = ex.OpenEnd
	}
	if ex.FailBlock != nil && *ex.FailBlock < end {
		end = *ex.FailBlock
	}
	for n := ex.Start; n < end; n++ {
		rb := ref.Canon[n]
		if rb == nil {
			continue
		}
		if seen[n] {
			continue
		}
		if len(rb.Out) > 0 {
			return viol(prop, "missing_block", "block %d has output %q in a sequential execution but was not delivered", n, rb.Out)
		}
		if !ex.Prod || n >= ex.Handoff {
			return viol(prop, "missing_empty_block", "block %d (empty output) not delivered (handoff %d, prod=%v)", n, ex.Handoff, ex.Prod)
		}
	}
	return nil
}

func fmtDeltas(ds []Delta) string {
	var parts []string
	for _, d := range ds {
		parts = append(parts, fmt.Sprintf("{op%d ord%d %s %q->%q}", d.Op, d.Ord, d.Key, d.Old, d.New))
	}
	return "[" + strings.Join(parts, " ") + "]"
}

func codeName(c connect.Code) string { return c.String() }
