package sim

import (
	"context"
	"fmt"

	"github.com/streamingfast/substreams/block"
	"github.com/streamingfast/substreams/orchestrator/plan"
	pbsubstreamsrpc "github.com/streamingfast/substreams/pb/sf/substreams/rpc/v2"
	"github.com/streamingfast/substreams/pipeline"
	"github.com/streamingfast/substreams/pipeline/exec"
)

// planFeatures derives, with the engine's own resolution and planning functions, facts about
// a request that characterise known triggers.
func planFeatures(pkg *PkgDef, q *ReqSpec, first uint64) (out []string) {
	defer func() {
		if r := recover(); r != nil {
			out = append(out, "plan:panic")
		}
	}()
	mods := pkg.Modules()
	g, err := exec.NewOutputModuleGraph(q.Output, q.Prod, mods, first)
	if err != nil {
		return []string{"plan:graph_error"}
	}
	req := &pbsubstreamsrpc.Request{StartBlockNum: q.Start, StopBlockNum: q.Stop, Modules: mods, OutputModule: q.Output, ProductionMode: q.Prod, StartCursor: q.Cursor}
	final := q.Final
	getFinal := func() (uint64, error) {
		if final != 0 {
			return final, nil
		}
		return 0, fmt.Errorf("no live feed")
	}
	det, _, err := pipeline.BuildRequestDetails(context.Background(), req, getFinal, nil, nil, q.SegSize)
	if err != nil {
		return []string{"plan:details_error"}
	}
	scheduleStores := g.StagedUsedModules()[0].LastLayer().IsStoreLayer()
	var lowestStores uint64
	if scheduleStores {
		lowestStores = *g.LowestStoresInitBlock()
	}
	p, err := plan.BuildTier1RequestPlan(q.Prod, q.SegSize, g.LowestInitBlock(), lowestStores, det.ResolvedStartBlockNum, det.LinearHandoffBlockNum, det.StopBlockNum, scheduleStores)
	if err != nil {
		return []string{"plan:plan_error"}
	}
	if !p.RequiresParallelProcessing() {
		return []string{"plan:linear_only"}
	}
	out = append(out, "plan:backfill")
	storeStages := 0
	for _, st := range g.StagedUsedModules() {
		if st.LastLayer().IsStoreLayer() {
			storeStages++
		}
	}
	if storeStages > 0 && p.BuildStores == nil {
		out = append(out, "plan:store_stages_skipped")
	}
	if det.LinearHandoffBlockNum%q.SegSize != 0 {
		out = append(out, "plan:handoff_unaligned")
	}
	// first segment index of every stage (as the scheduler computes it)
	inits := g.ModulesInitBlocks()
	var firsts []int
	for _, st := range g.StagedUsedModules() {
		layer := st.LastLayer()
		var seg *block.Segmenter
		if layer.IsStoreLayer() {
			if p.BuildStores == nil {
				continue
			}
			seg = p.StoresSegmenter()
		} else {
			if p.WriteExecOut == nil {
				continue
			}
			seg = p.WriteOutSegmenter()
		}
		low := inits[layer[0].Name]
		for _, m := range layer {
			low = min(low, inits[m.Name])
		}
		firsts = append(firsts, seg.WithInitialBlock(low).FirstIndex())
	}
	for i := 1; i < len(firsts); i++ {
		for j := 0; j < i; j++ {
			if firsts[i] > firsts[j] {
				out = append(out, "plan:stage_starts_after_lower_stage")
				i = len(firsts)
				break
			}
		}
	}
	return out
}
