package sim

// C10 — store snapshots round-trip through save/load and are found by block range.
// Component-level simulation of the storage surface: the real store.Config, FullKV,
// PartialKV, marshaller, ListSnapshotFiles and state.FetchState over a SimStore, driven by
// 2-3 concurrent client tasks, with read/write/list faults, lost acknowledgements, context
// cancellation and crash/restart of a writer.

import (
	"bytes"
	"context"
	"fmt"
	"sort"
	"sync"
	"time"

	pbsubstreams "github.com/streamingfast/substreams/pb/sf/substreams/v1"
	"github.com/streamingfast/substreams/storage/store"
	"github.com/streamingfast/substreams/storage/store/state"
	"go.uber.org/zap"
)

func GenC10(seed uint64) *Scenario {
	r := NewRng(seed, "gen", "C10")
	s := &Scenario{Prop: "C10", Seed: seed, Family: "storage_surface", Pkg: &PkgDef{Mods: []*ModDef{{Spec: ModSpec{Name: "m0", Kind: "map", FailAt: -1}}}, Output: "m0"}, Head: 1}
	s.Policy = []Policy{PolicyHashed, PolicyNode, PolicyClass, PolicyReverse, PolicyCanonical}[r.Intn(5)]
	s.StallPm = []int{0, 50, 200}[r.Intn(3)]
	if r.Chance(2, 3) {
		s.Rates = map[string]int{}
		kinds := []string{"io_err_read", "short_read", "io_err_write", "lost_ack", "io_err_list", "io_err_delete"}
		n := r.Range(1, 4)
		for i := 0; i < n; i++ {
			s.Rates[kinds[r.Intn(len(kinds))]] = []int{20, 60, 150}[r.Intn(3)]
		}
	}
	return s
}

type snapModel struct {
	name     string // file name
	partial  bool
	start    uint64
	end      uint64
	kv       map[string][]byte
	delpfx   []string
	acked    bool
	ackStep  int
	issued   int // step at which the save was issued
	deleted  bool
	delStep  int
	delIssue int
}

type c10Checker struct{}

func (c *c10Checker) AfterRequest(x *Exec, idx int, h *HistItem, res *RunResult) *Violation {
	return nil
}
func (c *c10Checker) Finish(x *Exec) *Violation { return nil }

func binKey(r *Rng) string {
	n := r.Range(1, 6)
	b := make([]byte, n)
	for i := range b {
		b[i] = byte(r.Intn(256))
	}
	if b[0] == 0xff {
		b[0] = 0xfe
	}
	if r.Chance(1, 3) {
		return fmt.Sprintf("k%d", r.Intn(20))
	}
	return string(b)
}

func binVal(r *Rng) []byte {
	switch r.Intn(6) {
	case 0:
		return []byte{}
	case 1:
		n := r.Range(200, 3000)
		b := make([]byte, n)
		for i := range b {
			b[i] = byte(r.Intn(256))
		}
		return b
	}
	n := r.Range(1, 12)
	b := make([]byte, n)
	for i := range b {
		b[i] = byte(r.Intn(256))
	}
	return b
}

func (c *c10Checker) Setup(x *Exec) *Violation {
	prop := "C10"
	seed := x.S.Seed
	r := NewRng(seed, "c10", "plan")
	nStores := r.Range(1, 2)
	var cfgs []*store.Config
	cfgMap := store.ConfigMap{}
	inits := []uint64{}
	for i := 0; i < nStores; i++ {
		init := uint64(r.Intn(50))
		if r.Chance(1, 4) {
			init = uint64(r.Intn(1000000000))
		}
		base := NewStore(x.Disk, x.Sim, "admin")
		cfg, err := store.NewConfig(fmt.Sprintf("st%d", i), init, fmt.Sprintf("hash%d", i), pbsubstreams.Module_KindStore_UPDATE_POLICY_SET, "bytes", base)
		if err != nil {
			x.Rep.Infra = err.Error()
			return nil
		}
		cfgs = append(cfgs, cfg)
		cfgMap[cfg.Name()] = cfg
		inits = append(inits, init)
	}
	var mu sync.Mutex
	models := map[string]*snapModel{} // key: store/file name
	var viols []*Violation
	fail := func(v *Violation) {
		mu.Lock()
		viols = append(viols, v)
		mu.Unlock()
	}
	nTasks := r.Range(2, 3)
	done := make(chan struct{})
	var wg sync.WaitGroup
	logger := zap.NewNop()
	usedEnd := map[string]bool{}

	for t := 0; t < nTasks; t++ {
		node := fmt.Sprintf("client%d", t)
		tr := NewRng(seed, "c10", "task", fmt.Sprint(t))
		nOps := tr.Range(4, 12)
		ctx, cancel := context.WithCancel(context.Background())
		x.Sim.RegisterNode(node, cancel)
		crashAt := 0
		if tr.Chance(1, 4) {
			crashAt = tr.Range(1, 25)
			x.Sim.KillNodeAtStep(node, crashAt)
		}
		wg.Add(1)
		go func() {
			defer wg.Done()
			for op := 0; op < nOps; op++ {
				if x.Sim.IsKilled(node) {
					// restart: a new incarnation of the client carries on
					node = node + "r"
					ctx, cancel = context.WithCancel(context.Background())
					x.Sim.RegisterNode(node, cancel)
					x.Probe("writer_restarted")
				}
				si := tr.Intn(nStores)
				// every handle of this task goes through its own node identity
				nodeStore := NewStore(x.Disk, x.Sim, node)
				cfg, _ := store.NewConfig(cfgs[si].Name(), inits[si], cfgs[si].ModuleHash(), pbsubstreams.Module_KindStore_UPDATE_POLICY_SET, "bytes", nodeStore)
				init := inits[si]
				opctx := ctx
				var opcancel context.CancelFunc
				if tr.Chance(1, 8) {
					// cancellation mid-operation: a timer cancels the context a little later (virtual time)
					opctx, opcancel = context.WithTimeout(ctx, time.Duration(tr.Range(1, 3000))*time.Millisecond)
				}
				switch k := tr.Intn(11); {
				case k == 10: // squasher-like: ONE store object saved at successive boundaries, writes in flight while it moves on
					fkv := cfg.NewFullKV(logger)
					cur := map[string][]byte{}
					end := init + 1 + uint64(tr.Intn(50))
					var awg sync.WaitGroup
					nsave := tr.Range(2, 4)
					for sidx := 0; sidx < nsave; sidx++ {
						nk := tr.Range(1, 5)
						for i := 0; i < nk; i++ {
							kk, v := fmt.Sprintf("k%d", tr.Intn(6)), binVal(tr)
							if len(v) > 40 {
								v = v[:40]
							}
							fkv.SetBytes(uint64(i), kk, v)
							cur[kk] = v
						}
						if err := fkv.Flush(); err != nil {
							fail(viol(prop, "flush_error", "flush: %v", err))
							return
						}
						fkv.Reset()
						end += 1 + uint64(tr.Intn(20))
						file, w, err := fkv.Save(end)
						if err != nil {
							fail(viol(prop, "save_error", "save: %v", err))
							return
						}
						m := &snapModel{partial: false, start: init, end: end, kv: map[string][]byte{}, name: cfg.Name() + "/" + file.Filename}
						for kk, v := range cur {
							m.kv[kk] = append([]byte(nil), v...)
						}
						mu.Lock()
						if usedEnd[m.name] {
							mu.Unlock()
							continue
						}
						usedEnd[m.name] = true
						m.issued = x.Sim.Steps()
						models[m.name] = m
						mu.Unlock()
						awg.Add(1)
						go func() { // asynchronous write, as the squasher does
							defer awg.Done()
							err := w.Write(opctx)
							mu.Lock()
							if err == nil {
								m.acked, m.ackStep = true, x.Sim.Steps()
							}
							mu.Unlock()
						}()
					}
					awg.Wait()
					x.Probe("async_save_chain")
				case k < 3: // save full
					end := init + 1 + uint64(tr.Intn(200))
					if tr.Chance(1, 5) {
						end = init + uint64(tr.Intn(4000000000))
						if end > 9999999999 {
							end = 9999999999
						}
						if end <= init {
							end = init + 1
						}
					}
					fkv := cfg.NewFullKV(logger)
					m := &snapModel{partial: false, start: init, end: end, kv: map[string][]byte{}}
					n := tr.Range(0, 12)
					if tr.Chance(1, 10) {
						n = tr.Range(300, 1500)
					}
					for i := 0; i < n; i++ {
						k, v := binKey(tr), binVal(tr)
						fkv.SetBytes(uint64(i), k, v)
						m.kv[k] = v
					}
					if err := fkv.Flush(); err != nil {
						fail(viol(prop, "flush_error", "flush: %v", err))
						return
					}
					file, w, err := fkv.Save(end)
					if err != nil {
						fail(viol(prop, "save_error", "save: %v", err))
						return
					}
					m.name = cfg.Name() + "/" + file.Filename
					mu.Lock()
					if usedEnd[m.name] {
						mu.Unlock()
						break // never write two different contents under one name
					}
					usedEnd[m.name] = true
					m.issued = x.Sim.Steps()
					models[m.name] = m
					mu.Unlock()
					if file.Range.StartBlock != init || file.Range.ExclusiveEndBlock != end || file.Partial {
						fail(viol(prop, "file_info", "full snapshot info %+v for [%d,%d)", file, init, end))
					}
					err = w.Write(opctx)
					mu.Lock()
					if err == nil {
						m.acked, m.ackStep = true, x.Sim.Steps()
					}
					mu.Unlock()
				case k < 5: // save partial
					start := init + uint64(tr.Intn(300))
					end := start + 1 + uint64(tr.Intn(50))
					p := cfg.NewPartialKV(start, logger)
					m := &snapModel{partial: true, start: start, end: end, kv: map[string][]byte{}}
					n := tr.Range(0, 10)
					for i := 0; i < n; i++ {
						if tr.Chance(1, 4) {
							pf := binKey(tr)
							p.DeletePrefix(uint64(i), pf)
							for kk := range m.kv {
								if len(kk) >= len(pf) && kk[:len(pf)] == pf {
									delete(m.kv, kk)
								}
							}
							dup := false
							for _, e := range m.delpfx {
								if e == pf {
									dup = true
								}
							}
							if !dup {
								m.delpfx = append(m.delpfx, pf)
							}
							continue
						}
						k, v := binKey(tr), binVal(tr)
						p.SetBytes(uint64(i), k, v)
						m.kv[k] = v
					}
					if err := p.Flush(); err != nil {
						fail(viol(prop, "flush_error", "flush: %v", err))
						return
					}
					file, w, err := p.Save(end)
					if err != nil {
						fail(viol(prop, "save_error", "save: %v", err))
						return
					}
					m.name = cfg.Name() + "/" + file.Filename
					mu.Lock()
					if usedEnd[m.name] {
						mu.Unlock()
						break
					}
					usedEnd[m.name] = true
					m.issued = x.Sim.Steps()
					models[m.name] = m
					mu.Unlock()
					if file.Range.StartBlock != start || file.Range.ExclusiveEndBlock != end || !file.Partial {
						fail(viol(prop, "file_info", "partial snapshot info %+v for [%d,%d)", file, start, end))
					}
					err = w.Write(opctx)
					mu.Lock()
					if err == nil {
						m.acked, m.ackStep = true, x.Sim.Steps()
					}
					mu.Unlock()
				case k < 7: // load something that was acknowledged
					mu.Lock()
					var cands []*snapModel
					for _, m := range models {
						if m.acked && !m.deleted && m.delIssue == 0 && len(m.name) > len(cfg.Name()) && m.name[:len(cfg.Name())+1] == cfg.Name()+"/" {
							cands = append(cands, m)
						}
					}
					sort.Slice(cands, func(i, j int) bool { return cands[i].name < cands[j].name })
					mu.Unlock()
					if len(cands) == 0 {
						break
					}
					m := cands[tr.Intn(len(cands))]
					if v := loadAndCompare(opctx, prop, cfg, m, logger, true); v != nil {
						fail(v)
					}
					x.Probe("concurrent_load_checked")
				case k < 9: // list below
					below := init + uint64(tr.Intn(400))
					s0 := x.Sim.Steps()
					files, err := cfg.ListSnapshotFiles(opctx, below)
					s1 := x.Sim.Steps()
					if err != nil {
						x.Probe("list_failed_after_retries")
						break
					}
					if v := checkListing(prop, cfg.Name(), below, files, models, &mu, s0, s1); v != nil {
						fail(v)
					}
					x.Probe("concurrent_list_checked")
				default: // delete an acknowledged partial
					mu.Lock()
					var cands []*snapModel
					for _, m := range models {
						if m.acked && m.partial && m.delIssue == 0 && m.name[:len(cfg.Name())+1] == cfg.Name()+"/" {
							cands = append(cands, m)
						}
					}
					sort.Slice(cands, func(i, j int) bool { return cands[i].name < cands[j].name })
					var m *snapModel
					if len(cands) > 0 {
						m = cands[tr.Intn(len(cands))]
						m.delIssue = x.Sim.Steps() + 1
					}
					mu.Unlock()
					if m == nil {
						break
					}
					p := cfg.NewPartialKV(m.start, logger)
					err := p.DeleteStore(opctx, store.NewPartialFileInfo(cfg.Name(), m.start, m.end))
					mu.Lock()
					if err == nil {
						m.deleted, m.delStep = true, x.Sim.Steps()
					}
					mu.Unlock()
				}
				if opcancel != nil {
					opcancel()
				}
			}
		}()
	}
	go func() { wg.Wait(); close(done) }()
	out := x.Sim.Drive(done, 20000, IdleLimit)
	if out != OutDone {
		return viol(prop, "hang", "storage clients did not finish (%v)", out)
	}
	if len(viols) > 0 {
		return viols[0]
	}
	// quiescent end state: no faults any more
	x.Sim.Free()
	ctx := context.Background()
	names := make([]string, 0, len(models))
	for n := range models {
		names = append(names, n)
	}
	sort.Strings(names)
	nAck := 0
	for _, n := range names {
		m := models[n]
		si := 0
		fmt.Sscanf(n, "st%d/", &si)
		cfg := cfgs[si]
		data, present := x.Disk.Get("hash" + fmt.Sprint(si) + "/states/" + n[len(cfg.Name())+1:])
		switch {
		case m.acked && !m.deleted && m.delIssue == 0:
			nAck++
			if !present {
				return viol(prop, "acked_save_lost", "snapshot %s was acknowledged but is absent", n)
			}
			if v := loadAndCompare(ctx, prop, cfg, m, logger, false); v != nil {
				return v
			}
		case !m.acked && present:
			// un-acknowledged save: absent or complete, never something else
			kv, dp, _, err := DecodeStoreFile(data)
			if err != nil {
				return viol(prop, "unacked_save_garbage", "un-acknowledged snapshot %s exists but does not decode: %v", n, err)
			}
			if d := kvEqual(kv, m.kv); d != "" {
				return viol(prop, "unacked_save_garbage", "un-acknowledged snapshot %s exists with different content: %s", n, d)
			}
			if m.partial && !strSliceEqual(dp, m.delpfx) {
				return viol(prop, "unacked_save_garbage", "un-acknowledged snapshot %s exists with different deleted prefixes", n)
			}
			x.Probe("unacked_save_found_complete")
		}
	}
	// final listings and the aggregate state fetch
	for si, cfg := range cfgs {
		below := inits[si] + 100000
		files, err := cfg.ListSnapshotFiles(ctx, below)
		if err != nil {
			return viol(prop, "list_error", "listing without faults failed: %v", err)
		}
		if v := checkListing(prop, cfg.Name(), below, files, models, &mu, x.Sim.Steps()+1, x.Sim.Steps()+1); v != nil {
			return v
		}
	}
	if _, err := state.FetchState(ctx, cfgMap, 1000000); err != nil {
		return viol(prop, "fetch_state_error", "FetchState without faults failed: %v", err)
	}
	x.Rep.NonTrivial = nAck >= 2
	x.Rep.Requests = len(models)
	return nil
}

func kvEqual(got, want map[string][]byte) string {
	for k, v := range want {
		g, ok := got[k]
		if !ok {
			return fmt.Sprintf("key %q missing", k)
		}
		if !bytes.Equal(g, v) {
			return fmt.Sprintf("key %q has %d bytes, want %d bytes", k, len(g), len(v))
		}
	}
	for k := range got {
		if _, ok := want[k]; !ok {
			return fmt.Sprintf("extra key %q", k)
		}
	}
	return ""
}

func strSliceEqual(a, b []string) bool {
	if len(a) != len(b) {
		return false
	}
	for i := range a {
		if a[i] != b[i] {
			return false
		}
	}
	return true
}

func loadAndCompare(ctx context.Context, prop string, cfg *store.Config, m *snapModel, logger *zap.Logger, tolerateIOError bool) *Violation {
	got := map[string][]byte{}
	var size uint64
	var dp []string
	if m.partial {
		p := cfg.NewPartialKV(m.start, logger)
		if err := p.Load(ctx, store.NewPartialFileInfo(cfg.Name(), m.start, m.end)); err != nil {
			if tolerateIOError {
				return nil // injected faults may exhaust the retries; a load may fail, never return wrong data
			}
			return viol(prop, "load_error", "loading acknowledged partial %s: %v", m.name, err)
		}
		p.Iter(func(k string, v []byte) error { got[k] = append([]byte(nil), v...); return nil })
		size, dp = p.SizeBytes(), p.DeletedPrefixes
	} else {
		f := cfg.NewFullKV(logger)
		if err := f.Load(ctx, store.NewCompleteFileInfo(cfg.Name(), m.start, m.end)); err != nil {
			if tolerateIOError {
				return nil
			}
			return viol(prop, "load_error", "loading acknowledged snapshot %s: %v", m.name, err)
		}
		f.Iter(func(k string, v []byte) error { got[k] = append([]byte(nil), v...); return nil })
		size = f.SizeBytes()
	}
	if d := kvEqual(got, m.kv); d != "" {
		return viol(prop, "roundtrip_content", "snapshot %s loaded back differs: %s", m.name, d)
	}
	var real uint64
	for k, v := range m.kv {
		real += uint64(len(k) + len(v))
	}
	if size != real {
		return viol(prop, "roundtrip_size", "snapshot %s loaded back reports size %d, content is %d bytes", m.name, size, real)
	}
	if m.partial && !strSliceEqual(dp, m.delpfx) {
		return viol(prop, "roundtrip_deleted_prefixes", "snapshot %s loaded back has deleted prefixes %q, want %q", m.name, dp, m.delpfx)
	}
	return nil
}

// checkListing: every snapshot acknowledged before the listing started (and not being deleted) that ends at or
// below `below` is listed with the right kind and range; nothing that was never saved; no duplicates.
func checkListing(prop, storeName string, below uint64, files []*store.FileInfo, models map[string]*snapModel, mu *sync.Mutex, s0, s1 int) *Violation {
	mu.Lock()
	defer mu.Unlock()
	seen := map[string]bool{}
	for _, f := range files {
		key := storeName + "/" + f.Filename
		if seen[key] {
			return viol(prop, "list_duplicate", "listing returned %s twice", key)
		}
		seen[key] = true
		m, ok := models[key]
		if !ok {
			return viol(prop, "list_unknown", "listing returned %s which was never saved", key)
		}
		if f.Partial != m.partial || f.Range.StartBlock != m.start || f.Range.ExclusiveEndBlock != m.end {
			return viol(prop, "list_wrong_info", "listing returned %s as partial=%v [%d,%d), saved as partial=%v [%d,%d)", key, f.Partial, f.Range.StartBlock, f.Range.ExclusiveEndBlock, m.partial, m.start, m.end)
		}
		if f.Range.StartBlock >= below {
			return viol(prop, "list_out_of_range", "listing below %d returned %s which starts at %d", below, key, f.Range.StartBlock)
		}
	}
	for key, m := range models {
		if key[:len(storeName)+1] != storeName+"/" {
			continue
		}
		if !m.acked || m.ackStep >= s0 || m.end > below {
			continue
		}
		if m.delIssue != 0 && m.delIssue <= s1 {
			continue
		}
		if !seen[key] {
			return viol(prop, "list_missing", "listing below %d misses acknowledged snapshot %s [%d,%d)", below, key, m.start, m.end)
		}
	}
	return nil
}
