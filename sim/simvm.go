package sim

// simvm: a wasm.ModuleFactory that interprets generated module programs. The
// "binary" of a generated module is a JSON ModSpec. Behaviour is a pure function
// of (spec, inputs the module can legitimately observe, results of its store
// reads); it talks to the engine only through the real wasm.Call host interface.

import (
	"context"
	"encoding/hex"
	"encoding/json"
	"fmt"
	"os"
	"sort"
	"strconv"
	"sync/atomic"

	pbindex "github.com/streamingfast/substreams/pb/sf/substreams/index/v1"
	pbsubstreams "github.com/streamingfast/substreams/pb/sf/substreams/v1"
	"github.com/streamingfast/substreams/wasm"
	"google.golang.org/protobuf/proto"
)

const SimVMName = "simvm"

type InSpec struct {
	Kind   string `json:"k"`           // params | block | clock | map | deltas | store
	Name   string `json:"n,omitempty"` // module name / source type
	SetSum bool   `json:"ss,omitempty"`
	Float  bool   `json:"fl,omitempty"` // the store holds float64 values: read as a typed value, like an SDK getter
}

// typed reduces bytes read from a store to what a typed reader obtains: no set:/sum: tag (known finding KF2
// is about that tag), and a float64 parsed (the write path prints 100 digits, the merge path the shortest form).
func (in InSpec) typed(b []byte) []byte {
	if in.SetSum {
		b = stripSetSum(b)
	}
	if in.Float && len(b) > 0 {
		if f, err := strconv.ParseFloat(string(b), 64); err == nil {
			return []byte(strconv.FormatFloat(f, 'g', -1, 64))
		}
	}
	return b
}

type ModSpec struct {
	Name     string   `json:"name"`
	Kind     string   `json:"kind"` // map | store | index
	Salt     uint64   `json:"salt"`
	Policy   string   `json:"policy,omitempty"` // set, setnx, add, min, max, append, setsum
	VType    string   `json:"vtype,omitempty"`  // bytes, int64, float64, bigint, bigdecimal
	Keys     int      `json:"keys,omitempty"`
	MaxOps   int      `json:"maxops,omitempty"`
	DelPm    int      `json:"delpm,omitempty"`   // permille of blocks with a delete_prefix
	EmptyPm  int      `json:"emptypm,omitempty"` // map: permille of empty outputs
	SkipEmp  bool     `json:"skipemp,omitempty"` // map: use the skip-empty intrinsic
	FailAt   int64    `json:"failat"`            // block number at which the module fails (-1 = never)
	FailMode int      `json:"failmode,omitempty"`
	IdxKeys  []string `json:"idxkeys,omitempty"`
	BigVal   int      `json:"bigval,omitempty"` // store: permille of large values (size-limit scenarios)
	Inputs   []InSpec `json:"inputs"`
	// V selects the behaviour version of the interpreter: committed replay files (regress/, findings/) keep the
	// programs they were recorded with; 1 adds many-digit numbers, nested keys, empty and overlapping prefixes.
	V int `json:"v,omitempty"`
}

func (m *ModSpec) Binary() []byte {
	b, err := json.Marshal(m)
	if err != nil {
		panic(err)
	}
	return b
}

// Probes/observers (set by harness, read at quiescence). ExecHook is called for every module execution.
type ExecEvent struct {
	Module string
	Block  uint64
	ID     string
}

var vmExecCount atomic.Int64
var vmExecHook atomic.Pointer[func(ExecEvent)]

func SetExecHook(f func(ExecEvent)) {
	if f == nil {
		vmExecHook.Store(nil)
		return
	}
	vmExecHook.Store(&f)
}

type simModule struct{ spec ModSpec }
type simInstance struct{}

func (simInstance) Cleanup(context.Context) error { return nil }
func (simInstance) Close(context.Context) error   { return nil }

func init() {
	wasm.RegisterModuleFactory(SimVMName, wasm.ModuleFactoryFunc(func(ctx context.Context, code []byte, codeType string, reg *wasm.Registry) (wasm.Module, error) {
		m := &simModule{}
		if err := json.Unmarshal(code, &m.spec); err != nil {
			return nil, fmt.Errorf("simvm: bad program: %w", err)
		}
		return m, nil
	}))
}

func (m *simModule) NewInstance(ctx context.Context) (wasm.Instance, error) {
	return simInstance{}, nil
}
func (m *simModule) Close(ctx context.Context) error { return nil }

type hasher struct{ v uint64 }

func (h *hasher) addB(tag string, b []byte) {
	h.v = H(h.v, tag, fmt.Sprint(len(b)), string(b))
}
func (h *hasher) addS(tag, s string) { h.v = H(h.v, tag, s) }
func (h *hasher) next() uint64       { h.v = mix64(h.v + 0x1234567); return h.v }

func stripSetSum(b []byte) []byte {
	if len(b) >= 4 && (string(b[:4]) == "set:" || string(b[:4]) == "sum:") {
		return b[4:]
	}
	return b
}

func (m *simModule) ExecuteNewCall(ctx context.Context, call *wasm.Call, cached wasm.Instance, arguments []wasm.Argument, argValues map[string][]byte) (inst wasm.Instance, err error) {
	inst = simInstance{}
	defer func() {
		if r := recover(); r != nil {
			// a host-function panic traps the VM: surfaces as an execution error
			err = fmt.Errorf("simvm trap: %v", r)
		}
	}()
	spec := &m.spec
	vmExecCount.Add(1)
	if hp := vmExecHook.Load(); hp != nil {
		(*hp)(ExecEvent{Module: spec.Name, Block: call.Clock.Number, ID: call.Clock.Id})
	}

	h := &hasher{v: spec.Salt}
	storeIdx := 0
	var readers []int
	var readerIns []InSpec
	specIdx := 0
	for _, a := range arguments {
		if _, ok := a.(*wasm.StoreWriterOutput); ok {
			continue
		}
		var in InSpec
		if specIdx < len(spec.Inputs) {
			in = spec.Inputs[specIdx]
		}
		specIdx++
		switch v := a.(type) {
		case *wasm.ParamsInput:
			h.addB("P", v.Value())
		case *wasm.SourceInput:
			val := argValues[v.Name()]
			if v.Name() == wasm.ClockType {
				ck := &pbsubstreams.Clock{}
				if e := proto.Unmarshal(val, ck); e != nil {
					return inst, fmt.Errorf("simvm: bad clock: %w", e)
				}
				h.addS("C", fmt.Sprintf("%d/%s", ck.Number, ck.Id))
			} else {
				if val == nil {
					if e := curEnv; e != nil {
						e.Probe("vm_block_input_missing")
					}
				}
				h.addB("B", val)
			}
		case *wasm.MapInput, *wasm.StoreDeltaInput:
			val := argValues[v.Name()]
			if in.Kind == "deltas" {
				ds := &pbsubstreams.StoreDeltas{}
				if e := proto.Unmarshal(val, ds); e != nil {
					return inst, fmt.Errorf("simvm: bad deltas: %w", e)
				}
				h.addS("D", fmt.Sprint(len(ds.StoreDeltas)))
				for _, d := range ds.StoreDeltas {
					ov, nv := in.typed(d.OldValue), in.typed(d.NewValue)
					h.addS("d", fmt.Sprintf("%d|%d|%s|%x|%x", d.Operation, d.Ordinal, d.Key, ov, nv))
				}
			} else {
				h.addB("M", val)
			}
		case *wasm.StoreReaderInput:
			readers = append(readers, storeIdx)
			readerIns = append(readerIns, in)
			storeIdx++
		default:
			return inst, fmt.Errorf("simvm: unknown argument %T", a)
		}
	}

	// store reads: chosen from the state so far, results folded in
	for ri, idx := range readers {
		in := readerIns[ri]
		n := 2 + int(h.next()%3)
		for i := 0; i < n; i++ {
			r := h.next()
			key := fmt.Sprintf("k%d", r%8)
			if spec.V >= 1 && (r>>40)%8 == 0 {
				key = nestedKeys[(r>>44)%4]
			}
			ord := (r >> 8) % 6
			switch (r >> 16) % 6 {
			case 0:
				v, f := call.DoGetLast(idx, key)
				h.addS("gl", fmt.Sprintf("%v|%x", f, in.typed(v)))
			case 1:
				v, f := call.DoGetFirst(idx, key)
				h.addS("gf", fmt.Sprintf("%v|%x", f, in.typed(v)))
			case 2:
				v, f := call.DoGetAt(idx, ord, key)
				h.addS("ga", fmt.Sprintf("%v|%x", f, in.typed(v)))
			case 3:
				h.addS("hl", fmt.Sprint(call.DoHasLast(idx, key)))
			case 4:
				h.addS("hf", fmt.Sprint(call.DoHasFirst(idx, key)))
			case 5:
				// has_at is answered through get_at: HasAt has a known strategy-independent
				// defect (C08, not claimed) that must not leak into differential checks
				_, f := call.DoGetAt(idx, ord, key)
				h.addS("ha", fmt.Sprint(f))
			}
		}
	}

	if spec.FailAt >= 0 && call.Clock.Number == uint64(spec.FailAt) {
		if spec.FailMode == 1 {
			call.SetPanicError("sim: deterministic module panic", "sim.rs", 1, 1)
			return inst, fmt.Errorf("simvm: unreachable executed")
		}
		return inst, fmt.Errorf("simvm: deterministic module failure at block %d", call.Clock.Number)
	}

	if traceVM {
		defer func() {
			fmt.Printf("VM %s blk=%d(%s) args=%s out=%q skip=%v\n", spec.Name, call.Clock.Number, call.Clock.Id, fmtArgs(arguments, argValues), call.Output(), call.CanSkipOutput())
		}()
	}
	switch spec.Kind {
	case "map":
		r := h.next()
		if int(r%1000) < spec.EmptyPm {
			if spec.SkipEmp {
				call.SkipEmptyOutput()
			}
			if (r>>20)%2 == 0 {
				call.SetReturnValue(nil)
			}
			return inst, nil
		}
		var b [8]byte
		x := h.next()
		for i := range b {
			b[i] = byte(x >> (8 * i))
		}
		if spec.SkipEmp {
			call.SkipEmptyOutput()
		}
		call.SetReturnValue([]byte(spec.Name + ":" + hex.EncodeToString(b[:])))
	case "index":
		r := h.next()
		var keys []string
		for i, k := range spec.IdxKeys {
			if (r>>(2*uint(i)))&3 == 0 { // each key present on ~1/4 of blocks
				keys = append(keys, k)
			}
		}
		sort.Strings(keys)
		out, e := proto.Marshal(&pbindex.Keys{Keys: keys})
		if e != nil {
			return inst, e
		}
		call.SetReturnValue(out)
	case "store":
		m.storeOps(call, h)
	default:
		return inst, fmt.Errorf("simvm: bad kind %q", spec.Kind)
	}
	return inst, nil
}

var decimals = []string{"0.25", "-0.5", "1.75", "3", "-2.25", "10.5", "0.125", "-7"}
var decimalsV1 = []string{"0.25", "-0.5", "1.75", "3", "-2.25", "10.5", "0.125", "-7", "123456789.987654321", "-0.000000000000000001", "1000000000000000000000.5", "0.1"}
var nestedKeys = []string{"k1a", "k1ab", "k10", "k"}
var bigints = []string{"1", "-3", "7", "123456789012345678901234567890", "-99999999999999999999", "42", "0", "5"}

func (m *simModule) storeOps(call *wasm.Call, h *hasher) {
	spec := &m.spec
	nops := 0
	if spec.MaxOps > 0 {
		nops = int(h.next() % uint64(spec.MaxOps+1))
	}
	if spec.DelPm > 0 && int(h.next()%1000) < spec.DelPm {
		r := h.next()
		prefix := "k"
		if r%3 != 0 {
			prefix = fmt.Sprintf("k%d", (r>>4)%uint64(max(spec.Keys, 1)))
		}
		if spec.V >= 1 {
			switch (r >> 40) % 16 {
			case 0:
				prefix = "" // legal: everything goes
			case 1, 2:
				prefix = "k1a"
			}
		}
		call.DoDeletePrefix((r>>12)%6, prefix)
		if spec.V >= 1 && (r>>48)%4 == 0 {
			// a second, possibly overlapping prefix in the same block
			call.DoDeletePrefix((r>>52)%6, []string{"k", "k1", "k1a", "k2"}[(r>>56)%4])
		}
	}
	for i := 0; i < nops; i++ {
		r := h.next()
		key := fmt.Sprintf("k%d", r%uint64(max(spec.Keys, 1)))
		ord := (r >> 8) % 6
		x := (r >> 16)
		iv := int64(x%11) - 5
		fv := float64(int64(x%33)-16) / 4
		if spec.V >= 1 && (r>>5)%8 == 0 {
			key = nestedKeys[(r>>2)%4] // keys that are prefixes of each other
		}
		if spec.V >= 1 && (x>>50)%4 == 0 {
			// many significant bits, still exact under any summation order (multiples of 2^-20 below 2^20):
			// exercises parsing and formatting without making float addition order-dependent
			fv = float64(int64((x>>8)%(1<<40))-(1<<39)) / (1 << 20)
		}
		if spec.V >= 1 && (x>>52)%4 == 0 {
			iv = int64((x>>8)%(1<<44)) - (1 << 43)
		}
		dec := decimals[x%uint64(len(decimals))]
		if spec.V >= 1 {
			dec = decimalsV1[x%uint64(len(decimalsV1))]
		}
		bi := bigints[x%uint64(len(bigints))]
		switch spec.Policy {
		case "set", "setnx":
			n := int(x % 7)
			if spec.BigVal > 0 && int((x>>8)%1000) < spec.BigVal {
				n = 40 + int((x>>20)%60)
			}
			val := make([]byte, n)
			for j := range val {
				val[j] = "abcdefghijklmnop"[(x>>(uint(j)%13*4))&15]
			}
			if spec.Policy == "set" {
				call.DoSet(ord, key, val)
			} else {
				call.DoSetIfNotExists(ord, key, val)
			}
		case "append":
			n := 1 + int(x%3)
			val := make([]byte, n)
			for j := range val {
				val[j] = "abcdefghijklmnop"[(x>>(uint(j)*4))&15]
			}
			val = append(val, ';')
			if (x>>44)%8 == 0 {
				val = nil // appending nothing is legal and creates the key with an empty value
			}
			call.DoAppend(ord, key, val)
		case "add":
			switch spec.VType {
			case "int64":
				call.DoAddInt64(ord, key, iv)
			case "float64":
				call.DoAddFloat64(ord, key, fv)
			case "bigint":
				call.DoAddBigInt(ord, key, bi)
			case "bigdecimal":
				call.DoAddBigDecimal(ord, key, dec)
			}
		case "min":
			switch spec.VType {
			case "int64":
				call.DoSetMinInt64(ord, key, iv)
			case "float64":
				call.DoSetMinFloat64(ord, key, fv)
			case "bigint":
				call.DoSetMinBigInt(ord, key, bi)
			case "bigdecimal":
				call.DoSetMinBigDecimal(ord, key, dec)
			}
		case "max":
			switch spec.VType {
			case "int64":
				call.DoSetMaxInt64(ord, key, iv)
			case "float64":
				call.DoSetMaxFloat64(ord, key, fv)
			case "bigint":
				call.DoSetMaxBigInt(ord, key, bi)
			case "bigdecimal":
				call.DoSetMaxBigDecimal(ord, key, dec)
			}
		case "setsum":
			pfx := "sum:"
			if (x>>40)%4 == 0 {
				pfx = "set:"
			}
			switch spec.VType {
			case "int64":
				call.DoSetSumInt64(ord, key, fmt.Sprintf("%s%d", pfx, iv))
			case "float64":
				call.DoSetSumFloat64(ord, key, fmt.Sprintf("%s%v", pfx, fv))
			case "bigint":
				call.DoSetSumBigInt(ord, key, pfx+bi)
			case "bigdecimal":
				call.DoSetSumBigDecimal(ord, key, pfx+dec)
			}
		}
	}
}

var traceVM = os.Getenv("SIM_TRACE_VM") == "1"

func fmtArgs(arguments []wasm.Argument, argValues map[string][]byte) string {
	out := ""
	for _, a := range arguments {
		switch v := a.(type) {
		case *wasm.MapInput, *wasm.SourceInput, *wasm.StoreDeltaInput:
			val, ok := argValues[v.Name()]
			if v.Name() == wasm.ClockType {
				out += "clock "
				continue
			}
			out += fmt.Sprintf("%s=%q(present=%v,nil=%v) ", v.Name(), trunc(val), ok, val == nil)
		case *wasm.StoreReaderInput:
			out += "store:" + v.Name() + " "
		case *wasm.ParamsInput:
			out += "params "
		}
	}
	return out
}

func trunc(b []byte) []byte {
	if len(b) > 24 {
		return b[:24]
	}
	return b
}
