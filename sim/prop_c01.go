package sim

// C01 — output independent of execution strategy (parallel / cached / linear, dev / prod).

import (
	"fmt"
	"os"
	"strings"

	"connectrpc.com/connect"

	"github.com/streamingfast/bstream"
	"github.com/streamingfast/substreams/manifest"
	"github.com/streamingfast/substreams/pipeline/exec"
)

func roundUp(x, m uint64) uint64 {
	if x%m == 0 {
		return x
	}
	return x - x%m + m
}

type graphInfo struct {
	lowest    uint64
	outInit   uint64
	stores    []string
	stages    int
	hasStores bool
}

func inspectGraph(pkg *PkgDef, output string, prod bool) (*graphInfo, error) {
	if err := manifest.ValidateModules(pkg.Modules()); err != nil {
		return nil, err
	}
	g, err := exec.NewOutputModuleGraph(output, prod, pkg.Modules(), bstream.GetProtocolFirstStreamableBlock)
	if err != nil {
		return nil, err
	}
	gi := &graphInfo{lowest: g.LowestInitBlock(), outInit: g.ModulesInitBlocks()[output], stages: len(g.StagedUsedModules())}
	for _, s := range g.Stores() {
		gi.stores = append(gi.stores, s.Name)
	}
	gi.hasStores = len(gi.stores) > 0
	return gi, nil
}

// genBase produces package + chain geometry shared by the strategy-style properties.
type baseGen struct {
	seg     uint64
	pkg     *PkgDef
	gi      *graphInfo
	maxStop uint64
	head    uint64
	rejects int
}

// deepMode (thorough tier): larger module graphs, more segments, more workers.
var deepMode = os.Getenv("SIM_DEEP") == "1"

func genBase(r *Rng, o GenOpts, first uint64) *baseGen {
	b := &baseGen{}
	if deepMode && r.Chance(1, 3) {
		if o.MinMods == 0 {
			o.MinMods, o.MaxMods = 3, 7
		}
		o.MaxMods += 4
		o.MinMods++
	}
	b.seg = uint64(r.Range(2, 12))
	if len(o.InitChoices) == 0 {
		ic := []uint64{0}
		n := r.Range(0, 2)
		for i := 0; i < n; i++ {
			ic = append(ic, first+uint64(r.Range(1, int(3*b.seg))))
		}
		o.InitChoices = ic
	}
	bstream.GetProtocolFirstStreamableBlock = first
	for {
		b.pkg = GenPackage(r, o)
		gi, err := inspectGraph(b.pkg, b.pkg.Output, true)
		if err == nil {
			b.gi = gi
			break
		}
		b.rejects++
		if b.rejects > 200 {
			panic("generator: cannot produce a valid package: " + err.Error())
		}
	}
	lo := max(b.gi.outInit, b.gi.lowest, first)
	b.maxStop = lo + uint64(r.Range(3, int(6*b.seg)))
	if b.maxStop > first+90 {
		b.maxStop = first + 90
	}
	if b.maxStop < lo+2 {
		b.maxStop = lo + 2
	}
	b.head = roundUp(b.maxStop, b.seg) + b.seg + 3
	return b
}

func genReq(r *Rng, b *baseGen, pkg *PkgDef, output string, first uint64) ReqSpec {
	gi, err := inspectGraph(pkg, output, true)
	if err != nil {
		gi = b.gi
		output = b.pkg.Output
	}
	lo := max(gi.outInit, gi.lowest, first)
	q := ReqSpec{Output: output, SegSize: b.seg, Workers: uint64(r.Range(1, 4)), Prod: r.Chance(1, 2)}
	maxStop := b.maxStop
	if maxStop < lo+2 {
		maxStop = lo + 2
	}
	start := lo + uint64(r.Intn(int(maxStop-lo-1)))
	switch r.Intn(6) {
	case 0:
		start = lo
	case 1:
		start = start - start%b.seg
		if start < lo {
			start = lo
		}
	}
	q.Start = int64(start)
	q.Stop = start + 1 + uint64(r.Intn(int(maxStop-start)))
	if r.Chance(1, 2) {
		q.Stop = maxStop
	}
	switch r.Intn(8) {
	case 0:
		q.Final = 0 // no live feed
	case 1:
		q.Final = b.head
	case 2, 3:
		q.Final = first + uint64(r.Intn(int(b.head-first)+1))
	default:
		// most of the range is final: back-fill is needed
		q.Final = q.Stop - uint64(r.Intn(int(min(q.Stop-start, b.seg))+1))
		if r.Chance(1, 2) {
			q.Final = min(b.head, q.Stop+uint64(r.Intn(int(b.seg))))
		}
	}
	if !q.Prod && r.Chance(1, 3) {
		q.DebugSnap = gi.stores
	}
	if r.Chance(1, 6) {
		q.FinalOnly = true
	}
	if r.Chance(1, 10) && (q.Final != 0 || !q.Prod) {
		q.Stop = 0 // open-ended: runs until the chain has no more blocks
	}
	return q
}

func genPolicy(r *Rng, s *Scenario) {
	switch x := r.Intn(100); {
	case x < 15:
		s.Policy = PolicyCanonical
	case x < 55:
		s.Policy = PolicyHashed
	case x < 73:
		s.Policy = PolicyClass
	case x < 90:
		s.Policy = PolicyNode
	default:
		s.Policy = PolicyReverse
	}
	s.StallPm = []int{0, 0, 30, 120}[r.Intn(4)]
	s.NTier2 = r.Range(1, 3)
	if r.Chance(1, 4) {
		s.Scheme = "file"
	}
}

func GenC01(seed uint64) *Scenario {
	r := NewRng(seed, "gen", "C01")
	first := uint64(0)
	if r.Chance(1, 8) {
		first = uint64(r.Range(1, 9))
	}
	b := genBase(r, GenOpts{}, first)
	s := &Scenario{Prop: "C01", Seed: seed, Family: "strategy", Pkg: b.pkg, First: first, Head: b.head, ConfDepth: uint64(r.Range(1, 4))}
	genPolicy(r, s)
	if r.Chance(1, 12) {
		return genLiveBackfill(seed, r)
	}
	nh := r.Range(0, 2)
	maps := []string{}
	for _, m := range b.pkg.Mods {
		if m.Spec.Kind == "map" {
			maps = append(maps, m.Spec.Name)
		}
	}
	for i := 0; i <= nh; i++ {
		out := b.pkg.Output
		if i < nh && r.Chance(1, 3) {
			out = maps[r.Intn(len(maps))]
		}
		h := HistItem{Req: genReq(r, b, b.pkg, out, first)}
		if i < nh && r.Chance(1, 4) {
			// an earlier request with a variant of the package (one field of one module changed): the cache
			// identity of the changed module and of its descendants must differ, everything else is shared
			if v := variantOf(b.pkg, r); v != nil {
				if _, err := inspectGraph(v, b.pkg.Output, true); err == nil {
					h.Pkg = v
					h.Req = genReq(r, b, v, b.pkg.Output, first)
				}
			}
		}
		if i < nh && r.Chance(1, 4) {
			h.EvictN = []int{100, 300, 600}[r.Intn(3)]
			h.EvictK = []string{"any", "full", "partial", "output", "notfull", "index"}[r.Intn(6)]
		}
		s.History = append(s.History, h)
	}
	fixHead(s)
	return s
}

// fixHead makes sure the chain is long enough for every request of the history (tier2 jobs
// read whole segments, the linear phase needs the stop block itself).
func fixHead(s *Scenario) {
	for _, h := range s.History {
		need := roundUp(h.Req.Stop, h.Req.SegSize) + h.Req.SegSize + 3
		if need > s.Head {
			s.Head = need
		}
		if h.Req.Final > s.Head {
			s.Head = h.Req.Final + 3
		}
	}
}

// stratChecker is the oracle shared by the strategy-style properties (C01, C05, C07, C15, C16, C04):
// every request that is expected to complete is compared with the sequential reference R0.
type stratChecker struct {
	prop     string
	fileInv  bool // check every committed file against R0
	monitors bool // C05 seam monitors + scheduler state coverage
	fc       map[string]*fileChecker
	states   map[string]bool
}

func (c *stratChecker) Setup(x *Exec) *Violation {
	c.fc = map[string]*fileChecker{}
	if c.monitors {
		x.Env.Mon = NewC05Monitor(x.S.First)
		c.states = map[string]bool{}
		x.Sim.OnStep = func(s *Sim, label string) {
			if strings.HasPrefix(label, "loop|send|") {
				if st := SchedulerState(); st != "" && len(c.states) < 400 {
					c.states[st] = true
				}
			}
		}
	}
	return nil
}

func checkCompleted(prop string, h *HistItem, res *RunResult) *Violation {
	if res.Panic != "" {
		return viol(prop, "panic", "request panicked: %s", res.Panic)
	}
	switch res.Outcome {
	case OutHang:
		return viol(prop, "hang", "request made no progress for %v of virtual time (steps=%d)", IdleLimit, res.Steps)
	case OutStepBudget:
		return viol(prop, "livelock", "request did not finish within %d scheduler steps", res.StepBudget)
	}
	return nil
}

func (c *stratChecker) AfterRequest(x *Exec, idx int, h *HistItem, res *RunResult) *Violation {
	prop := c.prop
	pkg := x.S.Pkg
	if h.Pkg != nil {
		pkg = h.Pkg
	}
	defer func() {
		if x.Env.Mon != nil {
			x.Env.Mon.ResetRequest()
		}
		curPP = nil
	}()
	if res.Panic != "" {
		return viol(prop, "panic", "request panicked: %s", res.Panic)
	}
	interrupted := h.Req.CrashAtOp > 0 || h.Req.DisconnectAt > 0
	if interrupted {
		// a crashed or abandoned request owes nothing but what it delivered must still be right
		if res.Outcome != OutDone {
			if h.Req.CrashAtOp > 0 {
				x.Probe("crashed_request_left_running")
				return nil
			}
			return checkCompleted(prop, h, res)
		}
		x.Probe("interrupted_request")
	} else if v := checkCompleted(prop, h, res); v != nil {
		return v
	}
	ref, err := x.Ref(pkg, h.Req.Output, h.Req.SegSize)
	if err != nil {
		x.Rep.Infra = "reference run failed: " + err.Error()
		return nil
	}
	// monitors first: they name the cause, the stream checks the consequence
	if x.Env.Mon != nil && len(x.Env.Mon.Violations) > 0 {
		v := x.Env.Mon.Violations[0]
		cls := v
		if i := strings.IndexByte(v, ':'); i > 0 {
			cls = v[:i]
		}
		return viol(prop, cls, "%s", v)
	}
	if c.fileInv {
		key := fmt.Sprintf("%p/%s", pkg, h.Req.Output)
		fc := c.fc[key]
		if fc == nil {
			fc = newFileChecker(pkg, h.Req.Output, x.S.First)
			fc.retriesPossible = x.S.Rates["lost_ack"] > 0 || x.S.Rates["io_err_write"] > 0
			c.fc[key] = fc
		}
		for _, other := range c.fc {
			if other != fc {
				other.next = len(x.Disk.Writes)
			}
		}
		if cls, d := fc.Check(pkg, ref, x.Disk, res.Node); cls != "" {
			return viol(prop, cls, "%s", d)
		}
	}
	var failBlock *uint64
	if ref.FailedAt != nil {
		failBlock = ref.FailedAt
	}
	openEnded := false
	if res.HasErr && !interrupted && h.Req.Stop == 0 && strings.Contains(res.Err.Error(), "unexpected EOF") && (failBlock == nil || *failBlock > x.Chain.Head) {
		// open-ended request: the simulated chain has no more blocks (a real stream would wait for the next one)
		openEnded = true
		x.Probe("open_ended_request_reached_chain_head")
	}
	if res.HasErr && !interrupted && !openEnded {
		if failBlock == nil || *failBlock >= h.Req.Stop && h.Req.Stop != 0 {
			return viol(prop, "unexpected_error", "request %d failed although no module fails in its range: code=%s err=%v", idx, codeName(res.Code), res.Err)
		}
		if res.Code != connect.CodeInvalidArgument {
			return viol(prop, "wrong_error_code", "module fails deterministically at block %d but the request ended with code=%s err=%v", *failBlock, codeName(res.Code), res.Err)
		}
		x.Probe("deterministic_failure_reported")
	}
	if !res.HasErr && !interrupted && failBlock != nil && (h.Req.Stop == 0 || *failBlock < h.Req.Stop) && *failBlock >= uint64(h.Req.Start) {
		return viol(prop, "failure_swallowed", "module fails deterministically at block %d inside [%d,%d) but the request ended without error", *failBlock, h.Req.Start, h.Req.Stop)
	}
	if res.Session == nil {
		if interrupted {
			return nil
		}
		return viol(prop, "no_session", "no SessionInit message")
	}
	ex := StreamExpect{Start: res.Session.ResolvedStartBlock, Stop: h.Req.Stop, Handoff: res.Session.LinearHandoffBlock, Prod: h.Req.Prod, FailBlock: failBlock}
	if h.Req.Stop == 0 {
		ex.OpenEnd = x.Chain.Head + 1
		if h.Req.FinalOnly {
			// the last blocks of the simulated chain never become final
			if ex.OpenEnd > x.Chain.ConfDepth {
				ex.OpenEnd -= x.Chain.ConfDepth
			} else {
				ex.OpenEnd = 0
			}
		}
	}
	if ex.Start != uint64(h.Req.Start) && h.Req.Cursor == "" {
		return viol(prop, "wrong_start", "resolved start %d, requested %d", ex.Start, h.Req.Start)
	}
	complete := !interrupted && (!res.HasErr || openEnded)
	if v := CheckStream(prop, pkg, ref, res, ex, complete); v != nil {
		return v
	}
	if res.HasErr && !interrupted && failBlock != nil {
		// correct prefix that stops before the failing block: in the linear part every block before it is there
		x.Probe("prefix_checked_after_failure")
	}
	if res.Handoff != nil {
		want := ref.StoresBefore(res.HandoffAt)
		if want != nil && (failBlock == nil || *failBlock >= res.HandoffAt) {
			if d := CompareStores(pkg, res.Handoff, want, nil); d != "" {
				return viol(prop, "handoff_store_mismatch", "stores handed to the linear phase at block %d differ from a sequential execution: %s", res.HandoffAt, d)
			}
		}
		if ex.Handoff%h.Req.SegSize != 0 {
			x.Probe("handoff_not_on_boundary")
		}
	}
	// snapshots sent to the client (dev mode) must equal the reference too
	snap := map[string]StoreState{}
	for _, m := range res.Msgs {
		if m.Kind == "snapshot" {
			ss, ok := snap[m.SnapModule]
			if !ok {
				ss = StoreState{KV: map[string][]byte{}}
			}
			for k, v := range m.SnapKV {
				ss.KV[k] = v
			}
			snap[m.SnapModule] = ss
		}
	}
	if len(snap) > 0 {
		gate := max(ex.Start, ex.Handoff)
		if want := ref.StoresBefore(gate); want != nil {
			only := map[string]bool{}
			for k := range snap {
				only[k] = true
			}
			if d := CompareStores(pkg, snap, want, only); d != "" {
				return viol(prop, "snapshot_mismatch", "initial store snapshot sent at block %d differs from a sequential execution: %s", gate, d)
			}
		}
		x.Probe("dev_snapshot_checked")
	}
	if c.monitors && complete && res.LeakedIO > 0 {
		return viol(prop, "write_in_flight_at_return", "%d tier1 write(s) still in flight when the request returned", res.LeakedIO)
	}
	if h.Req.Prod && ex.Start < ex.Handoff {
		x.Probe("prod_backfill")
	}
	if !h.Req.Prod && res.HandoffAt > 0 && len(res.Handoff) > 0 && ex.Handoff > ref.Lowest {
		x.Probe("dev_backfill")
	}
	if idx > 0 && res.Steps > 0 {
		x.Probe("request_on_populated_cache")
	}
	x.Rep.NonTrivial = x.Rep.NonTrivial || (res.Steps >= 6 && len(res.Data()) > 0)
	return nil
}

func (c *stratChecker) Finish(x *Exec) *Violation {
	if c.monitors {
		for st := range c.states {
			x.Rep.States = append(x.Rep.States, fmt.Sprintf("%016x", H(0, st)))
		}
	}
	return nil
}

func shapeOf(s *Scenario) string {
	if len(s.History) == 0 {
		return fmt.Sprintf("%s/%s/stall%d/%v", s.Family, s.Policy, s.StallPm, sortedKeys(s.Rates))
	}
	k := 0
	st := 0
	for _, m := range s.Pkg.Mods {
		if m.Spec.Kind == "store" {
			st++
		}
		k++
	}
	modes := ""
	for _, h := range s.History {
		if h.Req.Prod {
			modes += "P"
		} else {
			modes += "D"
		}
	}
	return fmt.Sprintf("m%d/s%d/%s/seg%d/%s", k, st, modes, s.History[len(s.History)-1].Req.SegSize, s.Policy)
}

// variantOf changes one hashed field of one module that the output depends on.
func variantOf(p *PkgDef, r *Rng) *PkgDef {
	v := p.Clone()
	anc := v.Ancestors(v.Output)
	var cands []*ModDef
	for _, m := range v.Mods {
		if anc[m.Spec.Name] {
			cands = append(cands, m)
		}
	}
	if len(cands) == 0 {
		return nil
	}
	m := cands[r.Intn(len(cands))]
	switch r.Intn(5) {
	case 0:
		m.Spec.Salt ^= 0x5bd1e995 // code
	case 1:
		if len(m.Spec.Inputs) > 0 && m.Spec.Inputs[0].Kind == "params" && (m.Filter == nil || !m.Filter.FromParams) {
			m.Param = m.Param + "x" // parameter value
		} else {
			m.Spec.Salt ^= 0x7f4a7c15
		}
	case 2:
		m.Initial++ // initial block
	case 3:
		if m.Spec.Kind == "store" {
			m.Spec.Keys = m.Spec.Keys%8 + 1 // code (behaviour)
		} else {
			m.Spec.EmptyPm = (m.Spec.EmptyPm + 333) % 900
		}
	case 4:
		if m.Filter != nil && !m.Filter.FromParams {
			e := genExpr(r, []string{"a", "b", "c", "d"}, 2)
			m.Filter.Expr, m.Filter.Query = e, e.Render(r)
		} else {
			m.Spec.Salt ^= 0x1234567
		}
	}
	return v
}

// genLiveBackfill: production request with a long linear (live) part, so that the live back-filler
// asks tier2 for segments while the linear pipeline runs (N9).
func genLiveBackfill(seed uint64, r *Rng) *Scenario {
	b := genBase(r, GenOpts{MinMods: 2, MaxMods: 4, NoIndex: true, WantStores: r.Range(0, 1), InitChoices: []uint64{0}}, 0)
	s := &Scenario{Prop: "C01", Seed: seed, Family: "live_backfill", Pkg: b.pkg, ConfDepth: uint64(r.Range(1, 3))}
	genPolicy(r, s)
	lo := max(b.gi.outInit, b.gi.lowest)
	start := lo + uint64(r.Intn(int(2*b.seg)))
	q := ReqSpec{Output: b.pkg.Output, SegSize: b.seg, Workers: uint64(r.Range(1, 3)), Prod: true, Start: int64(start)}
	q.Final = start + uint64(r.Intn(int(b.seg)+1))
	q.Stop = q.Final + uint64(r.Range(135, 200))
	s.History = []HistItem{{Req: q}}
	if r.Chance(1, 2) {
		// a second request served from what the live back-filler cached
		q2 := q
		q2.Final = q.Stop
		q2.Workers = uint64(r.Range(1, 3))
		s.History = append(s.History, HistItem{Req: q2})
	}
	fixHead(s)
	return s
}
