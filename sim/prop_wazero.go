package sim

// Real-wazero configuration: the repo's own compiled test packages run on the real wazero
// runtime inside the bubble, under the same scheduler, store, transport and oracles.
// Programs are fixed; schedules, faults, cache states and request geometry are generated.

import (
	"sort"
)

var spkgPaths = []string{
	"/repo/test/testdata/simple_substreams/substreams-test-v0.1.0.spkg",
	"/repo/test/testdata/complex_substreams/complex-substreams-v0.1.0.spkg",
}

// mapModulesOf lists the map modules of a compiled package (candidates for the output module).
func mapModulesOf(path string) []string {
	var out []string
	for _, m := range loadSpkg(path).Modules {
		if m.GetKindMap() != nil {
			out = append(out, m.Name)
		}
	}
	sort.Strings(out)
	return out
}

// wazeroBase builds the geometry for a compiled package and output module.
func wazeroBase(r *Rng) *baseGen {
	for tries := 0; tries < 50; tries++ {
		path := spkgPaths[r.Intn(len(spkgPaths))]
		maps := mapModulesOf(path)
		out := maps[r.Intn(len(maps))]
		pkg := &PkgDef{Spkg: path, Output: out}
		gi, err := inspectGraph(pkg, out, true)
		if err != nil {
			continue
		}
		b := &baseGen{pkg: pkg, gi: gi, seg: []uint64{5, 7, 10, 10}[r.Intn(4)]}
		lo := max(gi.outInit, gi.lowest)
		b.maxStop = lo + uint64(r.Range(3, int(5*b.seg)))
		b.head = roundUp(b.maxStop, b.seg) + b.seg + 3
		return b
	}
	panic("wazero generator: no usable module")
}

// GenWazero produces a scenario of the given property over a compiled package.
func GenWazero(seed uint64, prop string) *Scenario {
	r := NewRng(seed, "gen", "wazero", prop)
	b := wazeroBase(r)
	s := &Scenario{Prop: prop, Seed: seed, Family: "real_wazero", Pkg: b.pkg, Head: b.head, ConfDepth: uint64(r.Range(1, 3))}
	genPolicy(r, s)
	nh := r.Range(0, 1)
	for i := 0; i <= nh; i++ {
		h := HistItem{Req: genDeepReq(r, b, b.pkg.Output, 0, 1, 4)}
		h.Req.DebugSnap = nil
		if i < nh {
			switch prop {
			case "C07", "C05":
				if r.Chance(1, 2) {
					h.Req.CrashAtOp = r.Range(3, 120)
				}
				if r.Chance(1, 2) {
					h.EvictN = []int{200, 500}[r.Intn(2)]
					h.EvictK = []string{"any", "full", "partial", "output", "states"}[r.Intn(5)]
				}
			default:
				if r.Chance(1, 3) {
					h.EvictN, h.EvictK = 300, "any"
				}
			}
		}
		s.History = append(s.History, h)
	}
	if prop == "C16" {
		s.Rates = map[string]int{}
		s.MaxF = map[string]int{}
		k := transientKinds[r.Intn(len(transientKinds))]
		s.Rates[k], s.MaxF[k] = 300, 2
	}
	fixHead(s)
	return s
}
