package sim

// Real-wazero configuration: the repo's own compiled test packages run on the real wazero
// runtime inside the bubble, under the same scheduler, store, transport and oracles.
// Programs are fixed; schedules, faults, cache states and request geometry are generated.

import (
	"sort"

	pbsubstreams "github.com/streamingfast/substreams/pb/sf/substreams/v1"
)

var spkgPaths = []string{
	"/repo/test/testdata/simple_substreams/substreams-test-v0.1.0.spkg",
	"/repo/test/testdata/complex_substreams/complex-substreams-v0.1.0.spkg",
}

// mapModulesOf lists the map modules of a compiled package (candidates for the output module).
func mapModulesOf(path string) []string {
	var out []string
	for _, m := range loadSpkg(path).Modules {
		if m.GetKindMap() != nil {
			out = append(out, m.Name)
		}
	}
	sort.Strings(out)
	return out
}

// observesSetSumTag reports whether out or one of its ancestors reads a set_sum store in deltas
// mode. Such a module sees the raw stored bytes including the internal "set:"/"sum:" tag, which
// differs between a linear run and a squashed store (known finding KF2, owned by C01): the other
// properties' real-wazero scenarios do not pick such an output module.
func observesSetSumTag(path, out string) bool {
	mods := loadSpkg(path).Modules
	by := map[string]*pbsubstreams.Module{}
	for _, m := range mods {
		by[m.Name] = m
	}
	seen := map[string]bool{}
	var walk func(n string) bool
	walk = func(n string) bool {
		if seen[n] {
			return false
		}
		seen[n] = true
		m := by[n]
		if m == nil {
			return false
		}
		for _, in := range m.Inputs {
			if st := in.GetStore(); st != nil {
				if sm := by[st.ModuleName]; sm != nil && st.Mode == pbsubstreams.Module_Input_Store_DELTAS &&
					sm.GetKindStore().GetUpdatePolicy() == pbsubstreams.Module_KindStore_UPDATE_POLICY_SET_SUM {
					return true
				}
				if walk(st.ModuleName) {
					return true
				}
			}
			if mp := in.GetMap(); mp != nil && walk(mp.ModuleName) {
				return true
			}
		}
		return false
	}
	return walk(out)
}

// wazeroBase builds the geometry for a compiled package and output module.
func wazeroBase(r *Rng, prop string) *baseGen {
	for tries := 0; tries < 50; tries++ {
		path := spkgPaths[r.Intn(len(spkgPaths))]
		maps := mapModulesOf(path)
		out := maps[r.Intn(len(maps))]
		if prop != "C01" && observesSetSumTag(path, out) {
			continue
		}
		pkg := &PkgDef{Spkg: path, Output: out}
		gi, err := inspectGraph(pkg, out, true)
		if err != nil {
			continue
		}
		b := &baseGen{pkg: pkg, gi: gi, seg: []uint64{5, 7, 10, 10}[r.Intn(4)]}
		lo := max(gi.outInit, gi.lowest)
		b.maxStop = lo + uint64(r.Range(3, int(5*b.seg)))
		b.head = roundUp(b.maxStop, b.seg) + b.seg + 3
		return b
	}
	panic("wazero generator: no usable module")
}

// genWazeroFork: a fork scenario over a compiled package (undo paths with the real VM and ABI). The test modules
// depend on the block number more than on its id, so sibling blocks often produce the same deltas; the reversal,
// the size accounting and the client's view are exercised all the same.
func genWazeroFork(seed uint64, prop string, r *Rng, b *baseGen) *Scenario {
	lo := max(b.gi.outInit, b.gi.lowest)
	base := lo + uint64(r.Range(1, int(3*b.seg)))
	forkNoSkippedHeights = true
	fork, top := GenFork(r, base, r.Range(2, 5), r.Range(4, 12))
	forkNoSkippedHeights = false
	s := &Scenario{Prop: prop, Seed: seed, Family: "real_wazero_forks", Pkg: b.pkg, Head: base, Fork: fork}
	genPolicy(r, s)
	q := ReqSpec{Output: b.pkg.Output, SegSize: b.seg, Workers: uint64(r.Range(1, 2)), Prod: r.Chance(1, 2)}
	start := lo + uint64(r.Intn(int(base-lo)+1))
	if r.Chance(1, 3) {
		start = base
	}
	q.Start = int64(start)
	q.Stop = top + 2
	q.Final = base
	s.History = []HistItem{{Req: q}}
	return s
}

// GenWazero produces a scenario of the given property over a compiled package.
func GenWazero(seed uint64, prop string) *Scenario {
	r := NewRng(seed, "gen", "wazero", prop)
	b := wazeroBase(r, prop)
	if prop == "C03" || prop == "C11" {
		return genWazeroFork(seed, prop, r, b)
	}
	s := &Scenario{Prop: prop, Seed: seed, Family: "real_wazero", Pkg: b.pkg, Head: b.head, ConfDepth: uint64(r.Range(1, 3))}
	genPolicy(r, s)
	nh := r.Range(0, 1)
	for i := 0; i <= nh; i++ {
		maxSeg := 4
		if r.Chance(1, 3) {
			maxSeg = 10 // the complex package changes behaviour at block 80
		}
		h := HistItem{Req: genDeepReq(r, b, b.pkg.Output, 0, 1, maxSeg)}
		h.Req.DebugSnap = nil
		if i < nh {
			switch prop {
			case "C07", "C05":
				if r.Chance(1, 2) {
					h.Req.CrashAtOp = r.Range(3, 120)
				}
				if r.Chance(1, 2) {
					h.EvictN = []int{200, 500}[r.Intn(2)]
					h.EvictK = []string{"any", "full", "partial", "output", "states"}[r.Intn(5)]
				}
			default:
				if r.Chance(1, 3) {
					h.EvictN, h.EvictK = 300, "any"
				}
			}
		}
		s.History = append(s.History, h)
	}
	if prop == "C16" {
		s.Rates = map[string]int{}
		s.MaxF = map[string]int{}
		k := transientKinds[r.Intn(len(transientKinds))]
		s.Rates[k], s.MaxF[k] = 300, 2
	}
	fixHead(s)
	return s
}
