package sim

// C11 — store size accounting exact; limits enforced consistently.
// Three families: forks (size after every new/undo step), strategy (size of every store handed
// over by the squasher, of every store inside tier2 jobs after every block and after snapshot
// loads), limit (linear execution with a lowered limit, hook H4).

import (
	"fmt"
	"strings"
	"sync"

	"github.com/streamingfast/bstream"
	"github.com/streamingfast/substreams/pipeline"
)

func GenC11(seed uint64) *Scenario {
	r := NewRng(seed, "gen", "C11")
	switch r.Intn(10) {
	case 0, 1, 2, 3:
		s := genForkScenario(seed, "C11")
		s.Family = "forks"
		return s
	case 4, 5:
		return genC11Limit(seed, r)
	case 6:
		return genC11LimitParallel(seed, r)
	}
	// strategy family: stores of every policy merged across segments
	b := genBase(r, GenOpts{WantStores: r.Range(1, 3), MinMods: 3, MaxMods: 6, NoIndex: true, MaxOps: 4}, 0)
	s := &Scenario{Prop: "C11", Seed: seed, Family: "merges_and_loads", Pkg: b.pkg, Head: b.head, ConfDepth: uint64(r.Range(1, 4))}
	genPolicy(r, s)
	nh := r.Range(0, 1)
	for i := 0; i <= nh; i++ {
		h := HistItem{Req: genDeepReq(r, b, b.pkg.Output, 0, 2, 6)}
		if i < nh && r.Chance(1, 2) {
			h.EvictN = []int{200, 500}[r.Intn(2)]
			h.EvictK = []string{"full", "partial", "any"}[r.Intn(3)]
		}
		s.History = append(s.History, h)
	}
	fixHead(s)
	return s
}

func genC11Limit(seed uint64, r *Rng) *Scenario {
	b := genBase(r, GenOpts{WantStores: 1, MinMods: 2, MaxMods: 4, NoIndex: true, Policies: []string{"set", "setnx", "append"}, BigVal: 250, MaxOps: 4, InitChoices: []uint64{0}}, 0)
	s := &Scenario{Prop: "C11", Seed: seed, Family: "limit", Pkg: b.pkg, Head: 60, ConfDepth: 2}
	s.Policy = PolicyCanonical
	s.NTier2 = 1
	s.SizeLimit = uint64(r.Range(60, 400))
	lo := max(b.gi.outInit, b.gi.lowest)
	q := ReqSpec{Output: b.pkg.Output, SegSize: b.seg, Workers: 1, Prod: false, Start: int64(lo), Stop: lo + uint64(r.Range(10, 40)), Final: 0}
	s.History = []HistItem{{Req: q}}
	fixHead(s)
	return s
}

// genC11LimitParallel: lowered limit with back-fill. Partial stores and merges have no limit check by design, so
// the outcome of the request is not held to the sequential reference; what must hold is that a FULL store advanced
// block by block (live or by replaying a cached operation log, inside a higher-stage tier2 job) never grows past the
// limit without the job failing.
func genC11LimitParallel(seed uint64, r *Rng) *Scenario {
	b := genBase(r, GenOpts{WantStores: r.Range(2, 3), MinMods: 4, MaxMods: 6, NoIndex: true, Policies: []string{"set", "setnx", "append"}, BigVal: 150, MaxOps: 3}, 0)
	s := &Scenario{Prop: "C11", Seed: seed, Family: "limit_parallel", Pkg: b.pkg, Head: b.head, ConfDepth: 2}
	genPolicy(r, s)
	s.SizeLimit = uint64(r.Range(150, 900))
	nh := r.Range(0, 1)
	for i := 0; i <= nh; i++ {
		h := HistItem{Req: genDeepReq(r, b, b.pkg.Output, 0, 2, 5)}
		h.Req.DebugSnap = nil
		if i < nh && r.Chance(2, 3) {
			// cached operation logs stay, snapshots go: the next request replays the logs into full stores
			h.EvictN = []int{300, 600, 1000}[r.Intn(3)]
			h.EvictK = []string{"states", "full", "partial"}[r.Intn(3)]
		}
		s.History = append(s.History, h)
	}
	fixHead(s)
	return s
}

// limitObs watches full stores inside tier2 jobs: a block that was accepted must not have grown one past the limit.
type limitObs struct {
	mu     sync.Mutex
	limit  uint64
	before map[*pipeline.Pipeline]map[string]uint64
	bad    string
	grown  int
}

func realSize(s StoreState) uint64 {
	var n uint64
	for k, v := range s.KV {
		n += uint64(len(k) + len(v))
	}
	return n
}

func (o *limitObs) BeforeStream(pipe *pipeline.Pipeline) {
	st := snapshotStores(pipe)
	o.mu.Lock()
	defer o.mu.Unlock()
	m := map[string]uint64{}
	for name, s := range st {
		if s.Full {
			m[name] = realSize(s)
		}
	}
	o.before[pipe] = m
}

func (o *limitObs) AfterStep(pipe *pipeline.Pipeline, blk *CBlock, step bstream.StepType, err error) {
	if err != nil || pipe == nil {
		return
	}
	st := snapshotStores(pipe)
	o.mu.Lock()
	defer o.mu.Unlock()
	prev := o.before[pipe]
	if prev == nil {
		return
	}
	for _, name := range sortedStoreNames(st) {
		s := st[name]
		if !s.Full {
			continue
		}
		now := realSize(s)
		was, known := prev[name]
		if known && now > was {
			o.grown++
			// the last delta that is not a delete left the store at least this big, and every such delta is checked
			if now > o.limit && o.bad == "" {
				o.bad = fmt.Sprintf("full store %s grew from %d to %d bytes on block %s inside a tier2 job, limit is %d, and the block was accepted", name, was, now, blk.ID, o.limit)
			}
		}
		prev[name] = now
	}
}

type sizeObs struct {
	mu    sync.Mutex
	where string
	bad   string
	n     int
}

func (o *sizeObs) AfterStep(pipe *pipeline.Pipeline, blk *CBlock, step bstream.StepType, err error) {
	if err != nil {
		return
	}
	st := snapshotStores(pipe)
	o.mu.Lock()
	defer o.mu.Unlock()
	o.n++
	if o.bad == "" {
		if d := SizeExact(st); d != "" {
			o.bad = fmt.Sprintf("%s after %s of block %s: %s", o.where, step, blk.ID, d)
		}
	}
}

type c11Checker struct {
	fork  *c03Checker
	t2    *sizeObs
	lim   *limitObs
	inner *stratChecker
}

func (c *c11Checker) Setup(x *Exec) *Violation {
	if x.S.Fork != nil {
		c.fork = &c03Checker{prop: "C11"}
		return c.fork.Setup(x)
	}
	if x.S.Family == "limit_parallel" {
		c.lim = &limitObs{limit: x.S.SizeLimit, before: map[*pipeline.Pipeline]map[string]uint64{}}
		x.Env.T2Obs = c.lim
		return nil
	}
	c.t2 = &sizeObs{where: "inside a tier2 job"}
	x.Env.T2Obs = c.t2
	c.inner = &stratChecker{prop: "C11", fileInv: true}
	return c.inner.Setup(x)
}

func (c *c11Checker) AfterRequest(x *Exec, idx int, h *HistItem, res *RunResult) *Violation {
	if c.fork != nil {
		return c.fork.AfterRequest(x, idx, h, res)
	}
	if x.S.Family == "limit" {
		return c.limit(x, idx, h, res)
	}
	if x.S.Family == "limit_parallel" {
		if c.lim.bad != "" {
			return viol("C11", "limit_late", "%s", c.lim.bad)
		}
		if res.Outcome != OutDone {
			return viol("C11", "hang", "request did not finish under a lowered size limit (outcome %d)", res.Outcome)
		}
		if res.HasErr && !strings.Contains(res.Err.Error(), "became too big") {
			return viol("C11", "unexpected_error", "request failed with something else than a size rejection: %v", res.Err)
		}
		if res.HasErr {
			x.Probe("parallel_limit_rejection")
			if !isInvalidArgument(res) {
				return viol("C11", "wrong_error_code", "store too big must be reported as invalid argument, got %s", codeName(res.Code))
			}
		}
		if c.lim.grown > 0 {
			x.Probe("full_store_growth_in_tier2_checked")
			x.Rep.NonTrivial = true
		}
		return nil
	}
	if v := c.inner.AfterRequest(x, idx, h, res); v != nil {
		return v
	}
	if c.t2.bad != "" {
		return viol("C11", "size_drift", "%s", c.t2.bad)
	}
	if res.Handoff != nil {
		if d := SizeExact(res.Handoff); d != "" {
			return viol("C11", "size_drift", "stores handed over by the squasher at block %d: %s", res.HandoffAt, d)
		}
		x.Probe("handoff_sizes_checked")
	}
	// every snapshot file written: the size a load reports equals the total length of keys and values
	for _, w := range x.Disk.Writes {
		if !strings.HasSuffix(w.Key, ".kv") && !strings.HasSuffix(w.Key, ".partial") {
			continue
		}
		data, ok := x.Disk.Get(w.Key)
		if !ok {
			continue
		}
		kv, _, size, err := DecodeStoreFile(data)
		if err != nil {
			continue
		}
		var real uint64
		for k, v := range kv {
			real += uint64(len(k) + len(v))
		}
		if real != size {
			return viol("C11", "size_on_load", "snapshot %s: load reports %d bytes, content is %d bytes", w.Key, size, real)
		}
	}
	x.Probe("tier2_blocks_size_checked")
	return nil
}

// limit consistency in a linear-only development request: rejected exactly when the real content exceeds the limit.
func (c *c11Checker) limit(x *Exec, idx int, h *HistItem, res *RunResult) *Violation {
	if v := checkCompleted("C11", h, res); v != nil {
		return v
	}
	lim := x.S.SizeLimit
	setSizeLimit(0)
	ref, err := x.Ref(x.S.Pkg, h.Req.Output, h.Req.SegSize)
	setSizeLimit(lim)
	if err != nil {
		x.Rep.Infra = "reference run failed: " + err.Error()
		return nil
	}
	// first block at which the running real size of some store exceeds the limit (delta by delta)
	var firstOver *uint64
	var overStore string
	for n := uint64(h.Req.Start); n < h.Req.Stop && firstOver == nil; n++ {
		rb := ref.Canon[n]
		if rb == nil {
			break
		}
		prev := ref.StoresBefore(n)
		for _, name := range sortedStoreNames(rb.Stores) {
			var size uint64
			if p, ok := prev[name]; ok {
				for k, v := range p.KV {
					size += uint64(len(k) + len(v))
				}
			}
			for _, d := range rb.Deltas[name] {
				switch d.Op {
				case 1:
					size += uint64(len(d.Key) + len(d.New))
				case 2:
					size += uint64(len(d.New))
					size -= uint64(len(d.Old))
				case 3:
					size -= uint64(len(d.Key) + len(d.Old))
					continue // the engine does not check the limit on a delete
				}
				if size > lim && firstOver == nil {
					nn := n
					firstOver = &nn
					overStore = name
				}
			}
		}
	}
	rejected := res.HasErr && strings.Contains(res.Err.Error(), "became too big")
	var lastDelivered int64 = -1
	for _, m := range res.Data() {
		lastDelivered = int64(m.Num)
	}
	switch {
	case rejected && firstOver == nil:
		return viol("C11", "limit_spurious", "store rejected as too big (limit %d) although its real content never exceeds the limit in [%d,%d): %v", lim, h.Req.Start, h.Req.Stop, res.Err)
	case !rejected && firstOver != nil:
		return viol("C11", "limit_late", "store %s really exceeds the limit %d at block %d but the request was not rejected (err=%v)", overStore, lim, *firstOver, res.Err)
	case rejected && firstOver != nil:
		if lastDelivered >= int64(*firstOver) {
			return viol("C11", "limit_late", "store %s exceeds the limit %d at block %d but block %d was still delivered", overStore, lim, *firstOver, lastDelivered)
		}
		if lastDelivered+1 < int64(*firstOver) {
			return viol("C11", "limit_spurious", "store rejected as too big after block %d although the real content first exceeds the limit %d at block %d", lastDelivered, lim, *firstOver)
		}
		if !isInvalidArgument(res) {
			return viol("C11", "wrong_error_code", "store too big must be reported as invalid argument, got %s", codeName(res.Code))
		}
		x.Probe("limit_rejection_checked")
		x.Rep.NonTrivial = true
	default:
		if res.HasErr {
			return viol("C11", "unexpected_error", "request failed: %v", res.Err)
		}
		x.Probe("limit_never_reached")
		x.Rep.NonTrivial = x.Rep.NonTrivial || len(res.Data()) > 5
	}
	return nil
}

func (c *c11Checker) Finish(x *Exec) *Violation { return nil }
