package sim

// Minimisation: shrink a failing scenario (history, evictions, schedule policy,
// faults, package, geometry) while the same violation class of the same property
// persists. Bounded by a replay budget.

import (
	"fmt"
	"sort"
	"strings"
	"testing"
)

type minimiser struct {
	t      *testing.T
	prop   string
	class  string
	budget int
	runs   int
	mk     func() Checker
}

func (m *minimiser) fails(s *Scenario) (bool, *RunReport) {
	if m.runs >= m.budget {
		return false, nil
	}
	m.runs++
	rep := RunScenario(m.t, s, m.mk(), true)
	if rep.Violation != nil && rep.Violation.Prop == m.prop && rep.Violation.Class == m.class {
		return true, rep
	}
	return false, rep
}

// explicitEvictions converts hash-based evictions into explicit key lists by running the scenario once.
func explicitFaults(s *Scenario, rep *RunReport) {
	// faults that fired become Forced decisions, rates are dropped
	if len(s.Rates) == 0 {
		return
	}
	forced := map[string]string{}
	for _, fa := range repFiredAt(rep) {
		i := strings.IndexByte(fa, '@')
		if i < 0 {
			continue
		}
		kind, addr := fa[:i], fa[i+1:]
		if kind == "crash" {
			continue
		}
		forced[addr] = kind
	}
	s.Forced = forced
	s.Rates = nil
}

func repFiredAt(rep *RunReport) []string { return rep.FiredAt }

// Minimise returns a smaller scenario that still fails with the same class, and the number of replays used.
func Minimise(t *testing.T, s0 *Scenario, class string, mk func() Checker, budget int) (*Scenario, int) {
	m := &minimiser{t: t, prop: s0.Prop, class: class, budget: budget, mk: mk}
	best := s0.Clone()
	try := func(mut func(c *Scenario) bool) bool {
		c := best.Clone()
		if !mut(c) {
			return false
		}
		if ok, _ := m.fails(c); ok {
			best = c
			return true
		}
		return false
	}
	// 0. confirm, and make fired faults explicit (addressed decisions)
	ok, rep := m.fails(best)
	if !ok {
		return s0, m.runs
	}
	if len(best.Rates) > 0 {
		c := best.Clone()
		explicitFaults(c, rep)
		if ok, _ := m.fails(c); ok {
			best = c
		}
	}
	// 1. truncate history after the failing request
	if rep != nil && rep.Violation != nil && rep.Violation.ReqIdx >= 0 && rep.Violation.ReqIdx < len(best.History)-1 {
		idx := rep.Violation.ReqIdx
		try(func(c *Scenario) bool { c.History = c.History[:idx+1]; return true })
	}
	// 2. schedule: canonical, no stalls, one tier2
	try(func(c *Scenario) bool {
		if c.Policy == PolicyCanonical && c.StallPm == 0 {
			return false
		}
		c.Policy, c.StallPm = PolicyCanonical, 0
		return true
	})
	try(func(c *Scenario) bool {
		if c.StallPm == 0 {
			return false
		}
		c.StallPm = 0
		return true
	})
	try(func(c *Scenario) bool {
		if c.NTier2 <= 1 && c.T2Max == 0 && c.Scheme == "" {
			return false
		}
		c.NTier2, c.T2Max, c.Scheme = 1, 0, ""
		return true
	})
	// 3. faults: drop forced faults one by one
	for changed := true; changed && len(best.Forced) > 0; {
		changed = false
		for _, addr := range sortedKeys(best.Forced) {
			a := addr
			if try(func(c *Scenario) bool { delete(c.Forced, a); return true }) {
				changed = true
			}
		}
	}
	// 4. history: drop earlier requests, then evictions
	for i := 0; i < len(best.History)-1; {
		ii := i
		if !try(func(c *Scenario) bool {
			c.History = append(c.History[:ii:ii], c.History[ii+1:]...)
			return true
		}) {
			i++
		}
	}
	for i := range best.History {
		ii := i
		try(func(c *Scenario) bool {
			h := &c.History[ii]
			if h.EvictN == 0 && len(h.Evict) == 0 {
				return false
			}
			h.EvictN, h.Evict, h.EvictK = 0, nil, ""
			return true
		})
		try(func(c *Scenario) bool {
			h := &c.History[ii]
			if h.Req.CrashAtOp == 0 && h.Req.DisconnectAt == 0 {
				return false
			}
			h.Req.CrashAtOp, h.Req.DisconnectAt = 0, 0
			return true
		})
	}
	// 5. workers -> 1, drop debug snapshots
	for i := range best.History {
		ii := i
		try(func(c *Scenario) bool {
			if c.History[ii].Req.Workers <= 1 {
				return false
			}
			c.History[ii].Req.Workers = 1
			return true
		})
		try(func(c *Scenario) bool {
			if len(c.History[ii].Req.DebugSnap) == 0 {
				return false
			}
			c.History[ii].Req.DebugSnap = nil
			return true
		})
	}
	// 6. package: prune modules no request needs
	try(func(c *Scenario) bool {
		need := map[string]bool{}
		if c.Pkg.Spkg != "" {
			return false
		}
		for _, h := range c.History {
			if h.Pkg != nil {
				return false
			}
			for n := range c.Pkg.Ancestors(h.Req.Output) {
				need[n] = true
			}
		}
		if len(need) == len(c.Pkg.Mods) {
			return false
		}
		var mods []*ModDef
		for _, md := range c.Pkg.Mods {
			if need[md.Spec.Name] {
				mods = append(mods, md)
			}
		}
		c.Pkg.Mods = mods
		return true
	})
	// 7. module behaviour: fewer ops / no deletes / no empties / no filters (each only if it still fails)
	for i := range best.Pkg.Mods {
		ii := i
		try(func(c *Scenario) bool {
			md := c.Pkg.Mods[ii]
			if md.Filter == nil {
				return false
			}
			md.Filter = nil
			return true
		})
		try(func(c *Scenario) bool {
			md := c.Pkg.Mods[ii]
			if md.Spec.DelPm == 0 {
				return false
			}
			md.Spec.DelPm = 0
			return true
		})
		try(func(c *Scenario) bool {
			md := c.Pkg.Mods[ii]
			if md.Spec.EmptyPm == 0 {
				return false
			}
			md.Spec.EmptyPm = 0
			return true
		})
		try(func(c *Scenario) bool {
			md := c.Pkg.Mods[ii]
			if md.Spec.MaxOps <= 1 {
				return false
			}
			md.Spec.MaxOps = 1
			return true
		})
	}
	// 8. shrink ranges: pull stop of the last request down
	for k := 0; k < 6; k++ {
		if !try(func(c *Scenario) bool {
			if len(c.History) == 0 {
				return false
			}
			h := &c.History[len(c.History)-1]
			if h.Req.Stop <= uint64(h.Req.Start)+2 {
				return false
			}
			h.Req.Stop = uint64(h.Req.Start) + (h.Req.Stop-uint64(h.Req.Start))/2 + 1
			return true
		}) {
			break
		}
	}
	best.Expect = class
	return best, m.runs
}

// Features describes the trigger of a (minimised) failing scenario as a sorted list of
// facts; known-finding signatures are conjunctions of such facts.
func Features(s *Scenario, v *Violation) []string {
	f := map[string]bool{}
	for _, fe := range scenarioFeatures(s, v) {
		f[fe] = true
	}
	out := make([]string, 0, len(f))
	for k := range f {
		out = append(out, k)
	}
	sort.Strings(out)
	return out
}

func scenarioFeatures(s *Scenario, v *Violation) []string {
	var out []string
	add := func(format string, a ...any) { out = append(out, fmt.Sprintf(format, a...)) }
	if s.Fork != nil {
		add("fork")
	}
	if len(s.History) > 1 {
		add("history>1")
	}
	// an earlier request ran with another segment size than the failing one and its output files were not all evicted:
	// they are aligned differently (trigger of known finding KF3)
	if v != nil && v.ReqIdx > 0 && v.ReqIdx < len(s.History) {
		for i := 0; i < v.ReqIdx; i++ {
			h := s.History[i]
			if h.Req.SegSize != s.History[v.ReqIdx].Req.SegSize && !h.DropOutputs {
				add("history:outputs_of_other_segment_size")
				break
			}
		}
	}
	for i, h := range s.History {
		if v != nil && v.ReqIdx >= 0 && i != v.ReqIdx {
			continue
		}
		pkg := s.Pkg
		if h.Pkg != nil {
			pkg = h.Pkg
		}
		if h.Req.Prod {
			add("prod")
		} else {
			add("dev")
		}
		for _, fe := range planFeatures(pkg, &h.Req, s.First) {
			add("%s", fe)
		}
	}
	for _, h := range s.History {
		if h.EvictN > 0 || len(h.Evict) > 0 {
			add("eviction")
		}
		if h.Req.CrashAtOp > 0 {
			add("crash")
		}
	}
	if len(s.Forced) > 0 || len(s.Rates) > 0 {
		add("faults")
	}
	return out
}
