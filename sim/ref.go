package sim

// R0: the reference run. A development-mode, fault-free, fork-free, cache-free,
// single sequential execution of the whole module graph of an output module from
// the graph's lowest initial block, built directly over the real pipeline.

import (
	"context"
	"fmt"
	"os"
	"time"

	"github.com/streamingfast/bstream"
	"github.com/streamingfast/dmetering"
	"github.com/streamingfast/substreams"
	"github.com/streamingfast/substreams/metrics"
	"github.com/streamingfast/substreams/orchestrator/plan"
	pbsubstreamsrpc "github.com/streamingfast/substreams/pb/sf/substreams/rpc/v2"
	"github.com/streamingfast/substreams/pipeline"
	"github.com/streamingfast/substreams/pipeline/cache"
	"github.com/streamingfast/substreams/pipeline/exec"
	"github.com/streamingfast/substreams/reqctx"
	"github.com/streamingfast/substreams/storage/execout"
	"github.com/streamingfast/substreams/storage/store"
	"github.com/streamingfast/substreams/wasm"
	"go.uber.org/zap"
)

type RefBlock struct {
	Num    uint64
	ID     string
	Ran    bool                  // output module produced an Output entry (always true at/after its initial block in dev mode)
	Out    []byte                // payload of the output module (nil = empty)
	Maps   map[string][]byte     // debug map outputs (other maps)
	Deltas map[string][]Delta    // store deltas
	Stores map[string]StoreState // store content after the block
	Err    error                 // execution failed at this block (deterministic failure)
}

type Ref struct {
	Output string
	Lowest uint64
	ByID   map[string]*RefBlock
	// Canon: blocks of the canonical chain by number
	Canon map[uint64]*RefBlock
	// InitStores: empty stores (state before Lowest)
	StoreNames []string
	FailedAt   *uint64
}

type refRunner struct {
	pipe  *pipeline.Pipeline
	ctx   context.Context
	stats *metrics.Stats
	last  *pbsubstreamsrpc.BlockScopedData
	graph *exec.Graph
}

func newRefRunner(pkg *PkgDef, output string, segSize uint64) (*refRunner, error) {
	mods := pkg.Modules()
	graph, err := exec.NewOutputModuleGraph(output, false, mods, bstream.GetProtocolFirstStreamableBlock)
	if err != nil {
		return nil, fmt.Errorf("ref graph: %w", err)
	}
	lowest := graph.LowestInitBlock()
	details := &reqctx.RequestDetails{
		Modules:               mods,
		OutputModule:          output,
		ProductionMode:        false,
		ResolvedStartBlockNum: lowest,
		LinearHandoffBlockNum: lowest,
		LinearGateBlockNum:    lowest,
		StopBlockNum:          0,
		MaxParallelJobs:       1,
		UniqueID:              999999,
	}
	ctx := context.Background()
	ctx = dmetering.WithBytesMeter(ctx)
	ctx = reqctx.WithRequest(ctx, details)
	stats := metrics.NewReqStats(&metrics.Config{OutputModule: output}, zap.NewNop())
	ctx = reqctx.WithReqStats(ctx, stats)

	disk := NewDisk()
	var base = NewStore(disk, nil, "ref")
	execCfg, err := execout.NewConfigs(base, graph.UsedModules(), graph.ModuleHashes(), segSize, bstream.GetProtocolFirstStreamableBlock, zap.NewNop())
	if err != nil {
		return nil, err
	}
	storeCfg, err := store.NewConfigMap(base, graph.Stores(), graph.ModuleHashes(), bstream.GetProtocolFirstStreamableBlock)
	if err != nil {
		return nil, err
	}
	stores := pipeline.NewStores(ctx, storeCfg, segSize, lowest, 0, false, nil)
	engine, err := cache.NewEngine(ctx, nil, BlockType, nil, nil)
	if err != nil {
		return nil, err
	}
	rr := &refRunner{ctx: ctx, stats: stats, graph: graph}
	resp := func(r substreams.ResponseFromAnyTier) error {
		if x, ok := r.(*pbsubstreamsrpc.Response); ok {
			if d, ok := x.Message.(*pbsubstreamsrpc.Response_BlockScopedData); ok {
				rr.last = d.BlockScopedData
			}
		}
		return nil
	}
	pipe := pipeline.New(ctx, graph, stores, nil, execCfg, wasm.NewRegistryWithRuntime(runtimeFor(pkg), nil), engine, segSize, nil, resp, 3*time.Minute)
	if err := pipe.Init(ctx); err != nil {
		return nil, err
	}
	reqPlan := &plan.RequestPlan{LinearPipeline: nil}
	if err := pipe.InitTier1StoresAndBackprocess(ctx, reqPlan); err != nil {
		return nil, err
	}
	rr.pipe = pipe
	return rr, nil
}

func (rr *refRunner) close() { rr.stats.LogAndClose() }

func (rr *refRunner) step(b *CBlock, output string) *RefBlock {
	rb := &RefBlock{Num: b.Num, ID: b.ID}
	ref := b.Ref()
	obj := &stepObj{step: bstream.StepNewIrreversible, cursor: &bstream.Cursor{Step: bstream.StepNewIrreversible, Block: ref, LIB: ref, HeadBlock: ref}}
	rr.last = nil
	if err := rr.pipe.ProcessBlock(b.PB(), obj); err != nil {
		rb.Err = err
		return rb
	}
	if d := rr.last; d != nil {
		if d.Output != nil && d.Output.MapOutput != nil {
			rb.Ran = true
			if v := d.Output.MapOutput.Value; len(v) > 0 {
				rb.Out = append([]byte(nil), v...)
			}
		}
		rb.Maps = map[string][]byte{}
		for _, o := range d.DebugMapOutputs {
			rb.Maps[o.Name] = append([]byte(nil), o.MapOutput.GetValue()...)
		}
		rb.Deltas = map[string][]Delta{}
		for _, o := range d.DebugStoreOutputs {
			var ds []Delta
			for _, sd := range o.DebugStoreDeltas {
				ds = append(ds, Delta{Op: int32(sd.Operation), Ord: sd.Ordinal, Key: sd.Key, Old: sd.OldValue, New: sd.NewValue})
			}
			rb.Deltas[o.Name] = ds
		}
	}
	rb.Stores = snapshotStores(rr.pipe)
	if os.Getenv("SIM_TRACE_STORES") == "1" {
		fmt.Printf("R0 after %s: out=%q %s\n", b.ID, rb.Out, fmtStores(rb.Stores))
	}
	return rb
}

// BuildRef runs R0 over the canonical chain and, in fork scenarios, over every root-to-block path.
func BuildRef(pkg *PkgDef, output string, chain *Chain, segSize uint64) (*Ref, error) {
	rr, err := newRefRunner(pkg, output, segSize)
	if err != nil {
		return nil, err
	}
	ref := &Ref{Output: output, Lowest: rr.graph.LowestInitBlock(), ByID: map[string]*RefBlock{}, Canon: map[uint64]*RefBlock{}}
	for _, s := range rr.graph.Stores() {
		ref.StoreNames = append(ref.StoreNames, s.Name)
	}
	start := ref.Lowest
	if start < chain.First {
		start = chain.First
	}
	linearEnd := chain.Head
	if chain.Fork != nil {
		linearEnd = chain.Fork.Base
	}
	for n := start; n <= linearEnd; n++ {
		b := chain.At(n)
		rb := rr.step(b, output)
		ref.ByID[b.ID] = rb
		ref.Canon[b.Num] = rb
		if rb.Err != nil {
			fa := b.Num
			ref.FailedAt = &fa
			break
		}
	}
	rr.close()
	if chain.Fork == nil || ref.FailedAt != nil {
		return ref, nil
	}
	// fork scenario: one runner per distinct leaf path (prefix re-executed; paths are short)
	byID := map[string]*CBlock{}
	children := map[string]int{}
	for _, b := range chain.Fork.Arrival {
		byID[b.ID] = b
		children[b.Parent]++
	}
	for _, leaf := range chain.Fork.Arrival {
		if children[leaf.ID] > 0 {
			continue
		}
		// path base -> leaf
		var path []*CBlock
		for cur := leaf; cur != nil; cur = byID[cur.Parent] {
			path = append([]*CBlock{cur}, path...)
		}
		if len(path) == 0 || path[0].Parent != chain.At(chain.Fork.Base).ID {
			continue // unlinkable branch: never delivered
		}
		r2, err := newRefRunner(pkg, output, segSize)
		if err != nil {
			return nil, err
		}
		for n := start; n <= chain.Fork.Base; n++ {
			r2.step(chain.At(n), output)
		}
		for _, b := range path {
			rb := r2.step(b, output)
			if _, seen := ref.ByID[b.ID]; !seen {
				ref.ByID[b.ID] = rb
			}
		}
		r2.close()
	}
	return ref, nil
}

// StoresBefore returns R0's store content right before block n of the canonical chain.
func (r *Ref) StoresBefore(n uint64) map[string]StoreState {
	if n <= r.Lowest {
		out := map[string]StoreState{}
		for _, s := range r.StoreNames {
			out[s] = StoreState{KV: map[string][]byte{}}
		}
		return out
	}
	if rb := r.Canon[n-1]; rb != nil {
		return rb.Stores
	}
	return nil
}

func runtimeFor(pkg *PkgDef) string {
	if pkg.Spkg != "" {
		return "wazero"
	}
	return SimVMName
}
