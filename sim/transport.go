package sim

// SimTransport: fake gRPC client/server streams between tier1's RemoteWorker (and
// live back-filler) and the exported Tier2Service.ProcessRange. A gRPC stream
// neither reorders nor duplicates inside one call, so faults are the realistic ones.

import (
	"context"

	"fmt"
	"github.com/streamingfast/substreams/reqctx"
	"io"
	"sync"

	"github.com/streamingfast/substreams/client"
	pbssinternal "github.com/streamingfast/substreams/pb/sf/substreams/intern/v2"
	"github.com/streamingfast/substreams/service"
	"google.golang.org/grpc"
	"google.golang.org/grpc/codes"
	"google.golang.org/grpc/metadata"
	"google.golang.org/grpc/status"
)

type jobCtxKey struct{}

type JobInfo struct {
	ID      string
	Stage   uint32
	Segment uint64
	Try     int
	Req     *pbssinternal.ProcessRangeRequest
}

type tier2Node struct {
	name string
	svc  *service.Tier2Service
}

type streamEvent struct {
	msg *pbssinternal.ProcessRangeResponse
	err error
	end bool
}

type simRPC struct {
	env    *Env
	job    *JobInfo
	cctx   context.Context // client ctx
	sctx   context.Context // server ctx
	cancel context.CancelFunc

	mu         sync.Mutex
	events     chan streamEvent
	clientDead bool // client side has been told the stream ended
	partition  bool // server keeps running but nobody listens
	sends      int
}

// ---- client side ----

type simClient struct{ env *Env }

func (e *Env) ClientFactory() client.InternalClientFactory {
	return func() (pbssinternal.SubstreamsClient, func() error, []grpc.CallOption, client.Headers, error) {
		return &simClient{env: e}, func() error { return nil }, nil, nil, nil
	}
}

func (c *simClient) ProcessRange(ctx context.Context, in *pbssinternal.ProcessRangeRequest, opts ...grpc.CallOption) (grpc.ServerStreamingClient[pbssinternal.ProcessRangeResponse], error) {
	e := c.env
	key := fmt.Sprintf("s%d,seg%d", in.Stage, in.SegmentNumber)
	e.mu.Lock()
	try := e.tries[key]
	e.tries[key]++
	caller := e.curTier1
	rq := e.reqSeq
	e.mu.Unlock()
	// node names are unique per request: a crashed job of an earlier request must not be confused with this one
	job := &JobInfo{ID: fmt.Sprintf("t2[r%d,%s,try%d]", rq, key, try), Stage: in.Stage, Segment: in.SegmentNumber, Try: try, Req: in}
	if try > 0 {
		e.Probe("job_retried")
	}
	e.Probe("t2_jobs")
	if reqctxIsBackfiller(ctx) {
		e.Probe("live_backfiller_job")
	}

	d := e.Sim.Yield(caller, "net|call|"+job.ID, "unavailable_at_call", "deadline_at_call", "t2_crash")
	if d.Killed {
		return nil, status.Error(codes.Canceled, "context canceled")
	}
	if err := ctx.Err(); err != nil {
		return nil, status.FromContextError(err).Err()
	}
	switch d.Fault {
	case "unavailable_at_call":
		return nil, status.Error(codes.Unavailable, "sim: connection refused")
	case "deadline_at_call":
		return nil, status.Error(codes.DeadlineExceeded, "sim: context deadline exceeded")
	}

	node := e.Tier2s[int(H(e.Sim.Seed, "t2pick", job.ID)%uint64(len(e.Tier2s)))]
	base := context.WithValue(e.rootCtx, jobCtxKey{}, job)
	if md, ok := metadata.FromOutgoingContext(ctx); ok {
		base = metadata.NewIncomingContext(base, md) // headers travel with the call
	}
	sctx, cancel := context.WithCancel(base)
	rpc := &simRPC{env: e, job: job, cctx: ctx, sctx: sctx, cancel: cancel, events: make(chan streamEvent, 4096)}
	e.Sim.RegisterNode(job.ID, func() {
		cancel()
		rpc.breakClient(status.Error(codes.Unavailable, "sim: tier2 crashed"))
	})
	if d.Fault == "t2_crash" {
		// the worker process dies at its n-th released operation (between two of its file writes, mid-plan, ...):
		// only what it had committed survives, the client sees the connection drop
		e.Sim.KillNodeAtStep(job.ID, 1+d.Arg%16)
	}
	stop := context.AfterFunc(ctx, cancel) // client cancellation reaches the server
	e.noteJobAccepted(job)
	e.wg.Add(1)
	go func() {
		defer e.wg.Done()
		defer stop()
		err := e.runTier2(node, in, &simServerStream{rpc: rpc})
		d := e.Sim.Yield(job.ID, "net|end|"+job.ID, "reset_after_completion")
		e.noteJobEnded(job, err)
		if d.Killed {
			return
		}
		if d.Fault == "reset_after_completion" && err == nil {
			rpc.breakClient(status.Error(codes.Unavailable, "sim: connection reset after completion"))
			cancel()
			return
		}
		rpc.finish(err)
		cancel()
	}()
	return &simClientStream{rpc: rpc}, nil
}

// runTier2 calls the real exported handler and converts its error the way a gRPC server does.
func (e *Env) runTier2(node *tier2Node, in *pbssinternal.ProcessRangeRequest, ss *simServerStream) (err error) {
	defer func() {
		if r := recover(); r != nil {
			e.notePanic(fmt.Sprintf("tier2 %s: %v", ss.rpc.job.ID, r))
			err = status.Errorf(codes.Internal, "sim: tier2 panic: %v", r)
		}
	}()
	appErr := node.svc.ProcessRange(in, ss)
	if appErr == nil {
		return nil
	}
	// grpc-go server: status.FromError, else status.FromContextError
	if st, ok := status.FromError(appErr); ok {
		return st.Err()
	}
	return status.FromContextError(appErr).Err()
}

func (r *simRPC) breakClient(err error) {
	r.mu.Lock()
	defer r.mu.Unlock()
	if r.clientDead {
		return
	}
	r.clientDead = true
	r.events <- streamEvent{err: err, end: true}
}

func (r *simRPC) finish(err error) {
	r.mu.Lock()
	defer r.mu.Unlock()
	if r.clientDead {
		return
	}
	r.clientDead = true
	if err == nil {
		err = io.EOF
	}
	r.events <- streamEvent{err: err, end: true}
}

type simClientStream struct {
	rpc  *simRPC
	done bool
	err  error
}

func (s *simClientStream) Recv() (*pbssinternal.ProcessRangeResponse, error) {
	if s.done {
		return nil, s.err
	}
	select {
	case ev := <-s.rpc.events:
		if ev.end {
			s.done, s.err = true, ev.err
			return nil, ev.err
		}
		return ev.msg, nil
	case <-s.rpc.cctx.Done():
		s.done, s.err = true, status.FromContextError(s.rpc.cctx.Err()).Err()
		return nil, s.err
	}
}
func (s *simClientStream) Header() (metadata.MD, error) { return metadata.MD{}, nil }
func (s *simClientStream) Trailer() metadata.MD         { return metadata.MD{} }
func (s *simClientStream) CloseSend() error             { return nil }
func (s *simClientStream) Context() context.Context     { return s.rpc.cctx }
func (s *simClientStream) SendMsg(m any) error          { return nil }
func (s *simClientStream) RecvMsg(m any) error          { return fmt.Errorf("not supported") }

// ---- server side ----

type simServerStream struct{ rpc *simRPC }

func (s *simServerStream) Send(m *pbssinternal.ProcessRangeResponse) error {
	r := s.rpc
	r.mu.Lock()
	n := r.sends
	r.sends++
	part := r.partition
	dead := r.clientDead
	r.mu.Unlock()
	if part {
		return nil
	}
	if dead {
		return status.Error(codes.Unavailable, "transport is closing")
	}
	d := r.env.Sim.Yield(r.job.ID, fmt.Sprintf("net|send|%s|%d", r.job.ID, n), "reset_mid_stream", "silent_partition", "deadline_mid_stream")
	if d.Killed {
		return status.Error(codes.Unavailable, "transport is closing")
	}
	switch d.Fault {
	case "reset_mid_stream":
		r.breakClient(status.Error(codes.Unavailable, "sim: stream reset"))
		r.cancel()
		return status.Error(codes.Unavailable, "transport is closing")
	case "deadline_mid_stream":
		r.breakClient(status.Error(codes.DeadlineExceeded, "sim: context deadline exceeded"))
		r.cancel()
		return status.Error(codes.Unavailable, "transport is closing")
	case "silent_partition":
		r.mu.Lock()
		r.partition = true
		r.mu.Unlock()
		r.breakClient(status.Error(codes.Unavailable, "sim: connection lost"))
		return nil
	}
	r.mu.Lock()
	if !r.clientDead {
		r.events <- streamEvent{msg: m}
	}
	r.mu.Unlock()
	return nil
}
func (s *simServerStream) SetHeader(metadata.MD) error  { return nil }
func (s *simServerStream) SendHeader(metadata.MD) error { return nil }
func (s *simServerStream) SetTrailer(metadata.MD)       {}
func (s *simServerStream) Context() context.Context     { return s.rpc.sctx }
func (s *simServerStream) SendMsg(m any) error          { return nil }
func (s *simServerStream) RecvMsg(m any) error          { return fmt.Errorf("not supported") }

func reqctxIsBackfiller(ctx context.Context) bool { return reqctx.HasBackfillerRequest(ctx) }
