package sim

// Seam monitors (C05) and file invariants (every scenario family).

import (
	"bytes"
	"fmt"
	"strings"
	"sync"

	"github.com/streamingfast/substreams/orchestrator"
	"github.com/streamingfast/substreams/orchestrator/loop"
	"github.com/streamingfast/substreams/orchestrator/stage"
	"github.com/streamingfast/substreams/orchestrator/work"
	"github.com/streamingfast/substreams/pipeline/exec"
)

var curPP *orchestrator.ParallelProcessor

func init() {
	orchestrator.VerifOnBuild = func(pp *orchestrator.ParallelProcessor) { curPP = pp }
}

type c05Monitor struct {
	mu        sync.Mutex
	mon       *Monitor
	first     uint64
	lastMerge map[int]int // stage position -> last merged segment
	graphs    map[string]*exec.Graph
	jobs      int
	dupJobs   map[string]int
	msgSeq    []string
}

func NewC05Monitor(first uint64) *Monitor {
	m := &Monitor{}
	m.impl = &c05Monitor{mon: m, first: first, lastMerge: map[int]int{}, graphs: map[string]*exec.Graph{}, dupJobs: map[string]int{}}
	return m
}

func (c *c05Monitor) violate(format string, a ...any) {
	c.mon.Violations = append(c.mon.Violations, fmt.Sprintf(format, a...))
}

// ResetRequest is called between requests of a history.
func (m *Monitor) ResetRequest() {
	if c, ok := m.impl.(*c05Monitor); ok {
		c.mu.Lock()
		c.lastMerge = map[int]int{}
		c.dupJobs = map[string]int{}
		c.mu.Unlock()
	}
}

// JobAccepted: dependency safety, read from the request itself.
func (c *c05Monitor) JobAccepted(e *Env, j *JobInfo) {
	c.mu.Lock()
	defer c.mu.Unlock()
	c.jobs++
	req := j.Req
	g, err := exec.NewOutputModuleGraph(req.OutputModule, true, req.Modules, req.FirstStreamableBlock)
	if err != nil {
		return
	}
	stages := g.StagedUsedModules()
	if int(req.Stage) >= len(stages) {
		c.violate("job_bad_stage: job %s asks for stage %d but the graph has %d stages", j.ID, req.Stage, len(stages))
		return
	}
	segStart := req.StartBlock()
	inits := g.ModulesInitBlocks()
	for si := 0; si < int(req.Stage); si++ {
		layer := stages[si].LastLayer()
		if !layer.IsStoreLayer() {
			continue
		}
		for _, mod := range layer {
			init := inits[mod.Name]
			if init >= segStart {
				continue
			}
			key := fmt.Sprintf("tag/%s/states/%010d-%010d.kv", g.ModuleHashes().Get(mod.Name), segStart, init)
			present, issued := e.Disk.PresentOrIssued(key)
			switch {
			case present:
			case issued:
				e.Probe("job_accepted_while_snapshot_write_in_flight")
			default:
				c.violate("job_before_dependency: job %s (stage %d, segment %d) accepted while store %s is not complete up to block %d (snapshot %s neither written nor in flight)", j.ID, req.Stage, req.SegmentNumber, mod.Name, segStart, key)
			}
		}
	}
	k := fmt.Sprintf("s%d,seg%d", req.Stage, req.SegmentNumber)
	c.dupJobs[k]++
}

func (c *c05Monitor) JobEnded(e *Env, j *JobInfo, err error) {}

func (c *c05Monitor) LoopMsg(e *Env, msg loop.Msg) {
	c.mu.Lock()
	defer c.mu.Unlock()
	switch m := msg.(type) {
	case stage.MsgMergeFinished:
		last, seen := c.lastMerge[m.Unit.Stage]
		if seen && m.Unit.Segment <= last {
			c.violate("merge_order: stage %d merged segment %d after segment %d", m.Unit.Stage, m.Unit.Segment, last)
		}
		c.lastMerge[m.Unit.Stage] = m.Unit.Segment
	case work.MsgJobSucceeded:
		_ = m
	}
}

// SchedulerState returns the scheduler's state matrix (H3), for coverage only.
func SchedulerState() string {
	if curPP == nil {
		return ""
	}
	defer func() { recover() }()
	return curPP.Stages().StatesString()
}

// ---- file invariants: every file that was written must agree with the sequential reference ----

type fileChecker struct {
	names map[string]string // module hash -> module name
	kinds map[string]string
	next  int // index into Disk.Writes already checked
	// retriesPossible: object-store faults are injected, a write may legitimately be committed twice (lost acknowledgement)
	retriesPossible bool
}

func newFileChecker(pkg *PkgDef, output string, first uint64) *fileChecker {
	fc := &fileChecker{names: map[string]string{}, kinds: map[string]string{}}
	if g, err := exec.NewOutputModuleGraph(output, true, pkg.Modules(), first); err == nil {
		for _, m := range g.UsedModules() {
			fc.names[g.ModuleHashes().Get(m.Name)] = m.Name
			switch {
			case m.GetKindMap() != nil:
				fc.kinds[m.Name] = "map"
			case m.GetKindStore() != nil:
				fc.kinds[m.Name] = "store"
			default:
				fc.kinds[m.Name] = "index"
			}
		}
	}
	return fc
}

// Check verifies the files committed since the last call. Returns a violation text or "".
func (fc *fileChecker) Check(pkg *PkgDef, ref *Ref, disk *Disk, perReqNode string) (string, string) {
	disk.mu.Lock()
	writes := append([]WriteRec(nil), disk.Writes[fc.next:]...)
	fc.next = len(disk.Writes)
	disk.mu.Unlock()
	seenT1 := map[string]int{}
	for _, w := range writes {
		parts := strings.Split(w.Key, "/")
		if len(parts) < 4 || parts[0] != "tag" {
			continue
		}
		name, ok := fc.names[parts[1]]
		if !ok {
			continue
		}
		data, present := disk.Get(w.Key)
		if !present {
			continue
		}
		fname := parts[len(parts)-1]
		switch {
		case strings.HasSuffix(fname, ".kv"):
			var end, start uint64
			fmt.Sscanf(fname, "%010d-%010d.kv", &end, &start)
			kv, _, size, err := DecodeStoreFile(data)
			if err != nil {
				return "file_corrupt", fmt.Sprintf("full snapshot %s of %s written by %s does not decode: %v", fname, name, w.Node, err)
			}
			want := ref.StoresBefore(end)
			if want == nil || (ref.FailedAt != nil && end > *ref.FailedAt) {
				continue
			}
			got := map[string]StoreState{name: {KV: kv, Size: size}}
			if d := CompareStores(pkg, got, want, map[string]bool{name: true}); d != "" {
				return "snapshot_content", fmt.Sprintf("full snapshot %s written by %s differs from a sequential execution up to block %d: %s", fname, w.Node, end, d)
			}
			if strings.HasPrefix(w.Node, "t1r") && !fc.retriesPossible {
				seenT1[w.Node+"|"+w.Key]++
				if seenT1[w.Node+"|"+w.Key] > 1 {
					return "snapshot_written_twice", fmt.Sprintf("tier1 %s wrote snapshot %s of %s twice in one request", w.Node, fname, name)
				}
			}
		case strings.HasSuffix(fname, ".partial"):
			if _, _, _, err := DecodeStoreFile(data); err != nil {
				return "file_corrupt", fmt.Sprintf("partial snapshot %s of %s written by %s does not decode: %v", fname, name, w.Node, err)
			}
		case strings.HasSuffix(fname, ".output"):
			items, ids, err := DecodeOutputFile(data)
			if err != nil {
				return "file_corrupt", fmt.Sprintf("output file %s of %s written by %s does not decode: %v", fname, name, w.Node, err)
			}
			var fstart, fend uint64
			fmt.Sscanf(fname, "%010d-%010d.output", &fstart, &fend)
			if fc.kinds[name] != "map" {
				continue
			}
			for num, payload := range items {
				if ref.FailedAt != nil && num >= *ref.FailedAt {
					continue
				}
				if num < fstart || num >= fend {
					return "output_file_content", fmt.Sprintf("output file %s of %s has an entry for block %d outside its range", fname, name, num)
				}
				rb := ref.Canon[num]
				if rb == nil || rb.ID != ids[num] {
					return "output_file_content", fmt.Sprintf("output file %s of %s has an entry for unknown block %d (%s)", fname, name, num, ids[num])
				}
				var want []byte
				var ran bool
				if name == ref.Output {
					want, ran = rb.Out, rb.Ran
				} else {
					want, ran = rb.Maps[name]
				}
				if !bytes.Equal(payload, want) {
					return "output_file_content", fmt.Sprintf("output file %s of %s: block %d payload %q, sequential execution gives %q (ran=%v)", fname, name, num, payload, want, ran)
				}
			}
			// every block with a non-empty reference payload must be in the file
			for num := fstart; num < fend; num++ {
				rb := ref.Canon[num]
				if rb == nil || rb.Err != nil {
					continue
				}
				var want []byte
				if name == ref.Output {
					want = rb.Out
				} else {
					want = rb.Maps[name]
				}
				if _, ok := items[num]; !ok && len(want) > 0 {
					return "output_file_content", fmt.Sprintf("output file %s of %s written by %s lacks block %d, sequential execution gives %q", fname, name, w.Node, num, want)
				}
			}
		}
	}
	return "", ""
}
