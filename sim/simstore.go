package sim

// SimStore: dstore.Store over an in-memory object map shared by every node of a
// simulated deployment. Every operation is a yield point and a fault point.
// Semantics: a write becomes visible atomically at its commit point (models
// dstore's temp-file + rename and object-store puts); readers never see a prefix.

import (
	"bytes"
	"context"
	"errors"
	"fmt"
	"io"
	"net/url"
	"sort"
	"strings"
	"sync"

	"github.com/streamingfast/dstore"
)

type Disk struct {
	mu       sync.Mutex
	objs     map[string][]byte
	issued   map[string]int // writes issued (parked before commit) per full key
	issuedBy map[string]int // ... per node
	Writes   []WriteRec     // committed writes in order (for monitors)
	Deletes  []string
	Scheme   string // "file" or "sim": BaseURL().Scheme (walker polling cadence)
	// OnCommit is called (under no lock) after a write commits.
	OnCommit func(node, key string, data []byte)
}

type WriteRec struct {
	Node string
	Key  string
	Len  int
}

func NewDisk() *Disk {
	return &Disk{objs: map[string][]byte{}, issued: map[string]int{}, issuedBy: map[string]int{}, Scheme: "sim"}
}

func (d *Disk) Snapshot() map[string][]byte {
	d.mu.Lock()
	defer d.mu.Unlock()
	out := make(map[string][]byte, len(d.objs))
	for k, v := range d.objs {
		out[k] = v
	}
	return out
}

func (d *Disk) Restore(m map[string][]byte) {
	d.mu.Lock()
	defer d.mu.Unlock()
	d.objs = make(map[string][]byte, len(m))
	for k, v := range m {
		d.objs[k] = v
	}
}

func (d *Disk) Keys() []string {
	d.mu.Lock()
	defer d.mu.Unlock()
	out := make([]string, 0, len(d.objs))
	for k := range d.objs {
		out = append(out, k)
	}
	sort.Strings(out)
	return out
}

func (d *Disk) Get(key string) ([]byte, bool) {
	d.mu.Lock()
	defer d.mu.Unlock()
	v, ok := d.objs[key]
	return v, ok
}

func (d *Disk) Delete(key string) {
	d.mu.Lock()
	delete(d.objs, key)
	d.mu.Unlock()
}

func (d *Disk) Put(key string, v []byte) {
	d.mu.Lock()
	d.objs[key] = v
	d.mu.Unlock()
}

// PresentOrIssued reports whether key is committed, or a write to it has been issued by a live node.
func (d *Disk) PresentOrIssued(key string) (present, issued bool) {
	d.mu.Lock()
	defer d.mu.Unlock()
	_, present = d.objs[key]
	return present, d.issued[key] > 0
}

type Store struct {
	disk      *Disk
	sim       *Sim
	node      string
	prefix    string // no leading or trailing slash; "" = root
	overwrite bool
}

var _ dstore.Store = (*Store)(nil)
var _ dstore.Clonable = (*Store)(nil)

func NewStore(disk *Disk, sim *Sim, node string) *Store {
	return &Store{disk: disk, sim: sim, node: node, overwrite: true}
}

var errTransient = errors.New("simstore: injected transient I/O error")
var errKilled = errors.New("simstore: node crashed")

func (s *Store) key(name string) string {
	if s.prefix == "" {
		return name
	}
	return s.prefix + "/" + name
}

func (s *Store) rel() string {
	// short stable label of the store prefix: strip the module-hash for readability? keep full: it is stable.
	return s.prefix
}

func (s *Store) yield(ctx context.Context, op, name string, kinds ...string) (Decision, error) {
	d := s.sim.Yield(s.node, fmt.Sprintf("%s|%s|%s", s.node, op, s.key(name)), kinds...)
	if d.Killed {
		return d, errKilled
	}
	if err := ctx.Err(); err != nil {
		return d, err
	}
	return d, nil
}

type faultReader struct {
	r      io.Reader
	remain int
}

func (f *faultReader) Read(p []byte) (int, error) {
	if f.remain <= 0 {
		return 0, errTransient
	}
	if len(p) > f.remain {
		p = p[:f.remain]
	}
	n, err := f.r.Read(p)
	f.remain -= n
	if err == io.EOF {
		return n, errTransient
	}
	return n, err
}

func (s *Store) OpenObject(ctx context.Context, name string) (io.ReadCloser, error) {
	d, err := s.yield(ctx, "open", name, "io_err_read", "short_read")
	if err != nil {
		return nil, err
	}
	if d.Fault == "io_err_read" {
		return nil, errTransient
	}
	data, ok := s.disk.Get(s.key(name))
	if !ok {
		return nil, dstore.ErrNotFound
	}
	if d.Fault == "short_read" {
		n := 0
		if len(data) > 0 {
			n = d.Arg % len(data)
		}
		return io.NopCloser(&faultReader{r: bytes.NewReader(data), remain: n}), nil
	}
	return io.NopCloser(bytes.NewReader(data)), nil
}

func (s *Store) FileExists(ctx context.Context, name string) (bool, error) {
	d, err := s.yield(ctx, "exists", name, "io_err_exists")
	if err != nil {
		return false, err
	}
	if d.Fault != "" {
		return false, errTransient
	}
	_, ok := s.disk.Get(s.key(name))
	return ok, nil
}

func (s *Store) ObjectPath(name string) string { return s.key(name) }
func (s *Store) ObjectURL(name string) string  { return s.disk.Scheme + ":///" + s.key(name) }
func (s *Store) ObjectAttributes(ctx context.Context, name string) (*dstore.ObjectAttributes, error) {
	if _, err := s.yield(ctx, "attr", name); err != nil {
		return nil, err
	}
	data, ok := s.disk.Get(s.key(name))
	if !ok {
		return nil, dstore.ErrNotFound
	}
	return &dstore.ObjectAttributes{Size: int64(len(data))}, nil
}

func (s *Store) WriteObject(ctx context.Context, name string, f io.Reader) error {
	k := s.key(name)
	s.disk.mu.Lock()
	s.disk.issued[k]++
	s.disk.issuedBy[s.node]++
	s.disk.mu.Unlock()
	d, err := s.yield(ctx, "write", name, "io_err_write", "lost_ack", "disk_full")
	s.disk.mu.Lock()
	s.disk.issued[k]--
	s.disk.issuedBy[s.node]--
	s.disk.mu.Unlock()
	if err != nil {
		return err
	}
	if d.Fault == "io_err_write" || d.Fault == "disk_full" {
		return errTransient
	}
	// the body is consumed when the upload happens, not when it is issued (an object store streams it):
	// a caller that hands over a buffer it modifies afterwards corrupts the object
	data, rerr := io.ReadAll(f)
	if rerr != nil {
		return rerr
	}
	s.disk.mu.Lock()
	_, exists := s.disk.objs[k]
	if !exists || s.overwrite {
		s.disk.objs[k] = data
		s.disk.Writes = append(s.disk.Writes, WriteRec{Node: s.node, Key: k, Len: len(data)})
	}
	cb := s.disk.OnCommit
	s.disk.mu.Unlock()
	if cb != nil {
		cb(s.node, k, data)
	}
	if d.Fault == "lost_ack" {
		return errTransient
	}
	return nil
}

func (s *Store) PushLocalFile(ctx context.Context, localFile, toBaseName string) error {
	return fmt.Errorf("simstore: PushLocalFile not supported")
}

func (s *Store) CopyObject(ctx context.Context, src, dest string) error {
	if _, err := s.yield(ctx, "copy", src); err != nil {
		return err
	}
	data, ok := s.disk.Get(s.key(src))
	if !ok {
		return dstore.ErrNotFound
	}
	s.disk.Put(s.key(dest), data)
	return nil
}

func (s *Store) Overwrite() bool           { return s.overwrite }
func (s *Store) SetOverwrite(enabled bool) { s.overwrite = enabled }

func (s *Store) list(prefix string) []string {
	full := s.key(prefix)
	if s.prefix != "" && prefix == "" {
		full = s.prefix + "/"
	}
	keys := s.disk.Keys()
	var out []string
	for _, k := range keys {
		if !strings.HasPrefix(k, full) {
			continue
		}
		rel := k
		if s.prefix != "" {
			rel = strings.TrimPrefix(k, s.prefix+"/")
		}
		out = append(out, rel)
	}
	sort.Strings(out)
	return out
}

func (s *Store) WalkFrom(ctx context.Context, prefix, startingPoint string, f func(filename string) error) error {
	d, err := s.yield(ctx, "walk", prefix, "io_err_list")
	if err != nil {
		return err
	}
	names := s.list(prefix)
	failAfter := -1
	if d.Fault == "io_err_list" {
		failAfter = 0
		if len(names) > 0 {
			failAfter = d.Arg % (len(names) + 1)
		}
	}
	for i, n := range names {
		if startingPoint != "" && n < startingPoint {
			continue
		}
		if failAfter >= 0 && i >= failAfter {
			return errTransient
		}
		if err := f(n); err != nil {
			if errors.Is(err, dstore.StopIteration) {
				return nil
			}
			return err
		}
	}
	if failAfter >= 0 {
		return errTransient
	}
	return nil
}

func (s *Store) Walk(ctx context.Context, prefix string, f func(filename string) error) error {
	return s.WalkFrom(ctx, prefix, "", f)
}

func (s *Store) ListFiles(ctx context.Context, prefix string, max int) ([]string, error) {
	var out []string
	err := s.Walk(ctx, prefix, func(n string) error {
		if len(out) >= max {
			return dstore.StopIteration
		}
		out = append(out, n)
		return nil
	})
	return out, err
}

func (s *Store) DeleteObject(ctx context.Context, name string) error {
	d, err := s.yield(ctx, "delete", name, "io_err_delete")
	if err != nil {
		return err
	}
	if d.Fault != "" {
		return errTransient
	}
	k := s.key(name)
	s.disk.mu.Lock()
	_, ok := s.disk.objs[k]
	delete(s.disk.objs, k)
	s.disk.Deletes = append(s.disk.Deletes, k)
	s.disk.mu.Unlock()
	if !ok {
		return dstore.ErrNotFound
	}
	return nil
}

func (s *Store) BaseURL() *url.URL {
	return &url.URL{Scheme: s.disk.Scheme, Path: "/" + s.prefix}
}

func (s *Store) SubStore(sub string) (dstore.Store, error) {
	c := *s
	sub = strings.Trim(sub, "/")
	if c.prefix == "" {
		c.prefix = sub
	} else {
		c.prefix = c.prefix + "/" + sub
	}
	return &c, nil
}

func (s *Store) SetMeter(dstore.Meter) {}

func (s *Store) Clone(ctx context.Context, opts ...dstore.Option) (dstore.Store, error) {
	c := *s
	return &c, nil
}

// WithNode returns a handle on the same disk and prefix for another node.
func (s *Store) WithNode(node string) *Store {
	c := *s
	c.node = node
	return &c
}
