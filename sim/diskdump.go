package sim

import (
	"fmt"
	"sort"
	"strings"

	pboutput "github.com/streamingfast/substreams/storage/execout/pb"
	"github.com/streamingfast/substreams/storage/store/marshaller"
)

// DecodeOutputFile returns block number -> payload of a cached output file.
func DecodeOutputFile(data []byte) (map[uint64][]byte, map[uint64]string, error) {
	m := &pboutput.Map{}
	if err := m.UnmarshalFast(data); err != nil {
		return nil, nil, err
	}
	out := map[uint64][]byte{}
	ids := map[uint64]string{}
	for _, it := range m.Kv {
		out[it.BlockNum] = it.Payload
		ids[it.BlockNum] = it.BlockId
	}
	return out, ids, nil
}

// DecodeStoreFile returns the content of a .kv / .partial snapshot.
func DecodeStoreFile(data []byte) (kv map[string][]byte, deletedPrefixes []string, size uint64, err error) {
	sd, sz, err := marshaller.Default().Unmarshal(data)
	if err != nil {
		return nil, nil, 0, err
	}
	if sd.Kv == nil {
		sd.Kv = map[string][]byte{}
	}
	return sd.Kv, sd.DeletePrefixes, sz, nil
}

func DumpDisk(d *Disk, names map[string]string) string {
	var b strings.Builder
	for _, k := range d.Keys() {
		data, _ := d.Get(k)
		label := k
		for h, n := range names {
			label = strings.Replace(label, h, n, 1)
		}
		switch {
		case strings.HasSuffix(k, ".output"):
			m, _, err := DecodeOutputFile(data)
			var nums []int
			for n := range m {
				nums = append(nums, int(n))
			}
			sort.Ints(nums)
			fmt.Fprintf(&b, "%s: blocks=%v err=%v\n", label, nums, err)
		case strings.HasSuffix(k, ".kv"), strings.HasSuffix(k, ".partial"):
			kv, dp, _, err := DecodeStoreFile(data)
			var ks []string
			for kk, v := range kv {
				ks = append(ks, fmt.Sprintf("%s=%q", kk, v))
			}
			sort.Strings(ks)
			fmt.Fprintf(&b, "%s: %v delprefix=%v err=%v\n", label, ks, dp, err)
		default:
			fmt.Fprintf(&b, "%s: %d bytes\n", label, len(data))
		}
	}
	return b.String()
}
